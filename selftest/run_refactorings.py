#!/venv/bin/python
"""False-alarm probe: behaviour-preserving refactorings (selftest/refactorings/*.diff, written by a
fresh sub-agent that saw only the property texts) must leave every check silent.

usage: selftest/run_refactorings.py [name|all] [C01,C02,...]
Each diff is applied to a scratch copy of /repo under /var/tmp (removed afterwards); a diff that
no longer applies to the current tree (a later repair touched the same lines) is reported as SKIP.
"""
import json
import os
import shutil
import subprocess
import sys
import tempfile
import time
from pathlib import Path

HERE = Path(__file__).resolve().parent.parent
D = HERE / "selftest" / "refactorings"


def main():
    a = sys.argv[1:]
    which = a[0] if a else "all"
    props = a[1].split(",") if len(a) > 1 else (HERE / "rvmon" / "props" / "REGISTERED").read_text().split()
    results = {}
    rf = Path(os.environ.get("RVMON_REF_RESULTS", D / "results.json"))  # a partial re-run keeps its results apart
    if rf.exists():
        results = json.loads(rf.read_text())
    bad = 0
    for diff in sorted(D.glob("refactor_*.diff")):
        name = diff.stem
        if which != "all" and which != name:
            continue
        tmp = Path(tempfile.mkdtemp(prefix=f"rvmon-ref-{name}-", dir="/var/tmp"))
        try:
            shutil.copytree("/repo/robotools", tmp / "robotools", ignore=shutil.ignore_patterns("__pycache__"))
            r = subprocess.run(["patch", "-p1", "-s", "--no-backup-if-mismatch", "-d", str(tmp), "-i", str(diff)], capture_output=True, text=True)
            if r.returncode != 0:
                print(f"SKIP {name}: does not apply to the current tree ({(r.stdout + r.stderr).strip().splitlines()[0][:100]})", flush=True)
                results[name] = {"status": "does not apply to the current tree"}
                continue
            t = subprocess.run(["/venv/bin/python", "-m", "pytest", "-q", "-p", "no:cacheprovider", "-x"], cwd=tmp, capture_output=True, text=True)
            tests = [l for l in t.stdout.strip().splitlines() if l.strip()][-1] if t.stdout.strip() else "?"
            res = {"tests": tests, "checks": {}}
            for p in props:
                t0 = time.time()
                env = dict(os.environ, RVMON_REPO=str(tmp), RVMON_KEEP_REPLAYS="1")
                c = subprocess.run([str(HERE / "bin" / "check"), p, "quick"], env=env, capture_output=True, text=True)
                status = {0: "held", 1: "VIOLATION", 2: "inconclusive"}.get(c.returncode, f"rc{c.returncode}")
                rules = sorted({l.split("rule=")[-1] for l in c.stdout.splitlines() if l.startswith("VIOLATION")})
                why = [l for l in c.stdout.splitlines() if l.startswith("INCONCLUSIVE")]
                res["checks"][p] = status if status == "held" else status + " " + ",".join(rules)[:200] + " ".join(why)[:200]
                bad += status != "held"
                print(f"{'ok  ' if status == 'held' else 'ALARM'} {name} {p} {res['checks'][p]} ({time.time() - t0:.0f}s)", flush=True)
            results[name] = res
            rf.write_text(json.dumps(results, indent=1) + "\n")
        finally:
            shutil.rmtree(tmp, ignore_errors=True)
    rf.write_text(json.dumps(results, indent=1) + "\n")
    return 1 if bad else 0


if __name__ == "__main__":
    sys.exit(main())
