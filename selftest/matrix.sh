#!/bin/sh
# Cross-detection matrix: every registered check against every seeded change (informational; slow).
cd "$(dirname "$0")/.." || exit 2
ALL=$(tr '\n' ',' < rvmon/props/REGISTERED | sed 's/,$//')
for d in seeded/*/; do
  id=$(basename "$d")
  VERIF_JOBS=${VERIF_JOBS:-4} selftest/run_seeded.py check "$id" quick --also "$ALL"
done
