#!/bin/sh
# Cross-detection matrix: every registered check against seeded changes (informational; slow).
# usage: selftest/matrix.sh [file with one seeded id per line]   (default: all)
cd "$(dirname "$0")/.." || exit 2
ALL=$(tr '\n' ',' < rvmon/props/REGISTERED | sed 's/,$//')
if [ -n "$1" ]; then IDS=$(cat "$1"); else IDS=$(ls seeded); fi
for id in $IDS; do
  VERIF_JOBS=${VERIF_JOBS:-4} selftest/run_seeded.py check "$id" quick --also "$ALL"
done
