"""Seed catalogue of property-breaking edits for validating the monitors (design artefact).

Each entry: (id, property it is aimed at, file under /repo, exact text to replace, replacement).
The edits were applied one at a time to scratch copies of /repo/robotools (outside /repo and
/verif) during the design phase and the pinned 148-test suite was run on each copy:

  survive the suite (must be caught by a monitor):
    m01 m02 m06 m07 m08 m09 m12 m13 m17 m18 m19 m22 m23 m24 m25 m26 m27* m28 m29* m30 m31*
    m32 m33 m34 m35 m36 m37 m39 m40          (* = semantically equivalent, must stay SILENT)
  killed by the suite already (kept as easy positives):
    m03 m04 m05 m10 m11 m14 m15 m16 m20 m21 m38

m27 and m29 (and, until unshift was judged outside the shifted region, m31) turned out not to change any property-relevant behaviour; they double as
false-alarm probes.  The self-test driver (written with the framework) applies an entry to a
scratch copy, points RVMON_REPO at it, runs the quick check of the property and expects exit 1
(or exit 0 for the starred ones), then deletes the copy.
"""
M = [
 ("m01","C01","robotools/worklists/base.py","source.remove(source.wells[0, source_column], float(volume) * n_dst, label=label)","source.remove(source.wells[0, source_column], float(volume) * (n_dst - 1), label=label)"),
 ("m02","C01","robotools/worklists/base.py","src_composition = source.get_well_composition(source.wells[0, source_column])","src_composition = source.get_well_composition(source.wells[0, 0])"),
 ("m03","C01","robotools/fluenttools/utils.py","        return 1 + c\n","        return 1 + c + 0 * 1 if labware.n_columns < 2 else 1 + (labware.n_columns - 1 - c)\n"),
 ("m04","C01","robotools/evotools/worklist.py","compositions=[source.get_well_composition(s)],","compositions=[destination.get_well_composition(d) or source.get_well_composition(s)],"),
 ("m05","C02","robotools/liquidhandling/labware.py","            if v_new > self.max_volume:\n","            if v_new > self.max_volume and len(wells) == 1:\n"),
 ("m06","C02","robotools/liquidhandling/labware.py","            if v_new < self.min_volume:\n","            if v_new < 0:\n"),
 ("m07","C03","robotools/worklists/base.py","        labware.remove(wells, volumes, label)\n        self.comment(label)\n        for well, volume in zip(wells, volumes):\n            if volume > 0:\n                self.aspirate_well(labware.name, self._get_well_position(labware, well), volume, **kwargs)\n","        self.comment(label)\n        for well, volume in zip(wells, volumes):\n            if volume > 0:\n                self.aspirate_well(labware.name, self._get_well_position(labware, well), volume, **kwargs)\n        labware.remove(wells, volumes, label)\n"),
 ("m08","C04","robotools/liquidhandling/labware.py","        wells = np.array(wells).flatten(\"F\")\n        volumes = np.array(volumes).flatten(\"F\")\n        if len(volumes) == 1:\n            volumes = np.repeat(volumes, len(wells))\n        assert len(volumes) == len(wells), \"Number of volumes must number of wells\"","        wells = np.array(wells).flatten(\"F\")\n        volumes = np.array(volumes).flatten(\"C\")\n        if len(volumes) == 1:\n            volumes = np.repeat(volumes, len(wells))\n        assert len(volumes) == len(wells), \"Number of volumes must number of wells\""),
 ("m09","C04","robotools/liquidhandling/labware.py","                f\"{vrow}{column:02d}\": (0, c)\n","                f\"{vrow}{column:02d}\": (0, c if vr < 8 else 0)\n"),
 ("m10","C05","robotools/liquidhandling/composition.py","    new_composition = {k: v / (volume_A + volume_B) for k, v in volumetric_fractions.items()}","    new_composition = {k: round(v / (volume_A + volume_B), 6) for k, v in volumetric_fractions.items()}"),
 ("m11","C05","robotools/liquidhandling/composition.py","        default_name = f\"{name}.{w}\" if is_multiwell else name","        default_name = f\"{name}.{w[0]}\" if is_multiwell else name"),
 ("m12","C06","robotools/worklists/utils.py","    if volume < max_volume or math.isinf(volume):","    if volume <= max_volume + 1 or math.isinf(volume):"),
 ("m13","C06","robotools/worklists/utils.py","    isteps = math.ceil(volume / max_volume)","    isteps = math.floor(volume / max_volume) + 1"),
 ("m14","C06","robotools/worklists/base.py","            multi_disp = math.floor(self.max_volume / volume)","            multi_disp = math.ceil(self.max_volume / volume)"),
 ("m15","C07","robotools/worklists/utils.py","            list(numpy.array(dsts)[order]),\n","            list(numpy.array(dsts)[numpy.argsort(dsts)]),\n"),
 ("m16","C07","robotools/fluenttools/worklist.py","            if npartitions > 1:\n                self.commit()","            if npartitions > 2:\n                self.commit()"),
 ("m17","C07","robotools/worklists/base.py","        if self.diti_mode:\n            self.append(\"W;\")\n            return\n","        if self.diti_mode and scheme != 4:\n            self.append(\"W;\")\n            return\n"),
 ("m18","C08","robotools/evotools/utils.py","        return 1 + c * labware.virtual_rows + r","        return 1 + c * max(labware.virtual_rows, 2) + r"),
 ("m19","C08","robotools/fluenttools/utils.py","    return 1 + c * labware.n_rows + r","    return 1 + c * labware.n_rows + (r if labware.n_rows != 5 else labware.n_rows - 1 - r)"),
 ("m20","C09","robotools/worklists/base.py","            f\"D;{rack_label};{rack_id};{rack_type};{position};{tube_id};{volume_s};{liquid_class};{tip_type};{tipv};{forced_rack_type}\"","            f\"D;{rack_label};{rack_type};{rack_id};{position};{tube_id};{volume_s};{liquid_class};{tip_type};{tipv};{forced_rack_type}\"" if False else "            f\"D;{rack_label};{rack_id};{rack_type};{position};{tube_id};{volume_s};{liquid_class};{tip_type};{tipv};{rack_type and forced_rack_type}\""),
 ("m21","C09","robotools/worklists/utils.py","    if not isinstance(rack_type, str) or len(rack_type) > 32 or \";\" in rack_type:","    if not isinstance(rack_type, str) or len(rack_type) > 64 or \";\" in rack_type:"),
 ("m22","C09","robotools/worklists/utils.py","    volume_str = f\"{numpy.round(volume, decimals=2):.2f}\"","    volume_str = f\"{numpy.floor(volume * 100) / 100:.2f}\""),
 ("m23","C10","robotools/worklists/utils.py","        tip = sum(set(tips))","        tip = sum(tips) if len(tips) != 2 else sum(set(tips))"),
 ("m24","C11","robotools/liquidhandling/labware.py","        self._history.append(self.volumes)\n        self._labels.append(label)","        self._history.append(self._volumes)\n        self._labels.append(label)"),
 ("m25","C11","robotools/fluenttools/worklist.py","            source.condense_log(nsteps * 2, label=label, verbatim=True)","            source.condense_log(nsteps * 2 + (1 if nsteps > 3 else 0), label=label, verbatim=True)"),
 ("m26","C11","robotools/liquidhandling/labware.py","        return self._volumes.copy()","        return self._volumes"),
 ("m27","C12","robotools/evotools/commands.py","            if bit_counter > 6:","            if bit_counter > 6 and not (rows == 5 and x == cols - 1 and y == rows - 1):"),
 ("m28","C13","robotools/evotools/commands.py","    labware_position = (grid, site - 1)\n\n    if volume is None:","    labware_position = (grid, site - 1 if site > 1 else site)\n\n    if volume is None:"),
 ("m29","C14","robotools/utils.py","                vtransfer = numpy.ceil(vmax_arr[c] * ideal_targets[:, c] / actual_targets[src_c])","                vtransfer = numpy.ceil(vmax_arr[c] * ideal_targets[:, c] / actual_targets[src_c] - 1e-9) + (1 if src_c > 2 else 0)"),
 ("m30","C15","robotools/transform.py","            rotated.append(self.rotated_wells[self.original_shape[1] - c - 1, r])","            rotated.append(self.rotated_wells[self.original_shape[1] - c - 1, r if self.original_shape[0] != 1 else 0])" ),
 ("m31","C15","robotools/transform.py","            shifted.append(self.wells_A[r - self.dr, c - self.dc])","            shifted.append(self.wells_A[r - self.dr, c - self.dc if self.shape_A[1] > 1 else 0])"),
 ("m32","C16","robotools/fluenttools/worklist.py","                        if v > 0:\n                            self.aspirate(source, s, v, label=None, **kwargs)","                        if v > 0.5:\n                            self.aspirate(source, s, v, label=None, **kwargs)"),
 ("m33","C17","robotools/worklists/base.py","        with open(filepath, \"w\", newline=\"\\r\\n\", encoding=\"latin_1\") as file:","        with open(filepath, \"w\", newline=\"\\n\", encoding=\"latin_1\") as file:"),
 ("m34","C17","robotools/worklists/base.py","        filepath.unlink(missing_ok=True)\n        with open(filepath, \"w\",","        with open(filepath, \"r+\" if filepath.exists() else \"w\","),
 ("m35","C18","robotools/worklists/utils.py","    column_groups = [column_groups_dd[col] for col in sorted(column_groups_dd.keys())]","    column_groups = [column_groups_dd[col] for col in sorted(column_groups_dd.keys(), key=lambda k: (len(column_groups_dd[k][0]) > 6, k))]"),
 ("m36","C19","robotools/utils.py","    n_repeat = n // n_available + 1","    n_repeat = max(1, -(-n // n_available)) if n % n_available or n < 7 * n_available else n // n_available - 1"),
 ("m37","C20","robotools/liquidhandling/labware.py","        if np.any(initial_volumes > max_volume):\n            raise ValueError(\"initial_volume cannot be above max_volume\")","        if np.all(initial_volumes > max_volume):\n            raise ValueError(\"initial_volume cannot be above max_volume\")"),
 ("m38","C03","robotools/evotools/worklist.py","        labware.remove(wells_calc, volumes_calc, label)\n        self.comment(label)\n        cmd = commands.evo_aspirate(","        self.comment(label)\n        cmd = commands.evo_aspirate("),
 ("m39","C02","robotools/evotools/worklist.py","        labware.add(wells_calc, volumes_calc, label, compositions=compositions)\n","        labware._volumes[tuple(zip(*[labware.indices[w] for w in wells_calc]))] += volumes_calc; labware.log(label)\n"),
 ("m40","C07","robotools/evotools/worklist.py","        if len(volumes) == 1:\n            volumes = np.repeat(volumes, nmax)\n        lengths","        if len(volumes) == 1:\n            volumes = np.repeat(volumes, nmax)\n        if len(volumes) > len(source_wells) > 1: volumes = volumes[: len(source_wells)]\n        if len(destination_wells) > len(source_wells) > 1: destination_wells = destination_wells[: len(source_wells)]\n        lengths"),
]
