#!/venv/bin/python
"""Regenerates section 5.4 of DESIGN.md (detection matrix) from seeded/*/meta.json and selftest/catalogue_results.json."""
import json
import re
from pathlib import Path

HERE = Path(__file__).resolve().parent.parent
rows = []
for d in sorted((HERE / "seeded").iterdir()):
    m = json.loads((d / "meta.json").read_text())
    det = m.get("detection", {})
    q = det.get("quick", {})
    others = [p for p, s in det.get("other_checks_quick", {}).items() if s == "VIOLATION"]
    rows.append((d.name, m["property"], (m.get("summary") or "").replace("|", "/").replace("\n", " ")[:150],
                 (m.get("needs_to_manifest") or "").replace("|", "/").replace("\n", " ")[:170],
                 q.get("status", "not run"), ", ".join(q.get("rules", []))[:160], ", ".join(sorted(others)), m.get("strengthened", "")))
out = ["| id | property | change (written by a fresh sub-agent from the property text only) | needs to manifest | own check (quick) | rules that fired | also caught by | note |",
       "|---|---|---|---|---|---|---|---|"]
for r in rows:
    out.append("| " + " | ".join(str(x) for x in r) + " |")
cat = HERE / "selftest" / "catalogue_results.json"
txt = "\n".join(out)
if cat.exists():
    c = json.loads(cat.read_text())
    txt += "\n\nCatalogue mutants (selftest/mutants_seed.py, `selftest/run_mutant.py all`):\n\n| mutant | property | result | rules |\n|---|---|---|---|\n"
    for e in c:
        txt += f"| {e['id']} | {e['property']} | {e['status']} | {e['rules'][:150]} |\n"
p = HERE / "DESIGN.md"
s = p.read_text()
begin, end = "<!-- MATRIX:BEGIN -->", "<!-- MATRIX:END -->"
if begin not in s:
    s += f"\n### 5.4 Which checks catch which changes\n\n{begin}\n{end}\n"
s = re.sub(re.escape(begin) + r".*?" + re.escape(end), lambda _m: begin + "\n" + txt + "\n" + end, s, flags=re.S)
p.write_text(s)
print(f"{len(rows)} seeded changes, table written")
