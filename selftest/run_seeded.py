#!/venv/bin/python
"""Confirm and evaluate seeded property-breaking changes (/verif/seeded/<id>/).

usage: selftest/run_seeded.py intake <Cnn> <A|B> <src-dir>     verify a sub-agent's patch+demo and store it as seeded/<Cnn>-<A|B>/
       selftest/run_seeded.py check <id|all> [quick|thorough] [--also C01,C02]   run the property's check on a patched scratch copy

Everything runs on scratch copies of /repo under /var/tmp that are removed afterwards; /repo is
never touched.  `intake` confirms: the patch applies, the 148 tests pass with it, the demo exits
1 with the patch and 0 without.
"""
import json
import os
import shutil
import subprocess
import sys
import tempfile
import time
from pathlib import Path

HERE = Path(__file__).resolve().parent.parent
SEEDED = HERE / "seeded"
PY = "/venv/bin/python"


def scratch(patch=None):
    tmp = Path(tempfile.mkdtemp(prefix="rvmon-seed-", dir="/var/tmp"))
    shutil.copytree("/repo/robotools", tmp / "robotools", ignore=shutil.ignore_patterns("__pycache__"))
    for f in ("pyproject.toml",):
        if Path("/repo", f).exists():
            shutil.copy(Path("/repo", f), tmp / f)
    if patch:
        r = subprocess.run(["patch", "-p1", "-s", "--no-backup-if-mismatch", "-d", str(tmp), "-i", str(Path(patch).resolve())], capture_output=True, text=True)
        if r.returncode != 0:
            shutil.rmtree(tmp, ignore_errors=True)
            raise RuntimeError("patch does not apply: " + r.stdout + r.stderr)
    return tmp


def run_tests(tmp):
    env = dict(os.environ, PYTHONDONTWRITEBYTECODE="1")
    r = subprocess.run([PY, "-m", "pytest", "-q", "-p", "no:cacheprovider", "-x"], cwd=tmp, capture_output=True, text=True, env=env, timeout=900)
    last = [l for l in r.stdout.strip().splitlines() if l.strip()][-1] if r.stdout.strip() else r.stderr[-200:]
    return r.returncode, last


def run_demo(tmp, demo):
    env = dict(os.environ, PYTHONDONTWRITEBYTECODE="1", PYTHONPATH=str(tmp))
    r = subprocess.run([PY, str(demo)], cwd=tmp, capture_output=True, text=True, env=env, timeout=600)
    return r.returncode, (r.stdout + r.stderr).strip()[-600:]


def intake(prop, name, src):
    src = Path(src)
    meta_src = json.loads((src / "meta.json").read_text()) if (src / "meta.json").exists() else {}
    pm = next((p for p in meta_src.get("patches", []) if p.get("name") == name), {})
    patch, demo = src / f"patch_{name}.diff", src / f"demo_{name}.py"
    res = {}
    t_un = scratch()
    t_pa = scratch(patch)
    try:
        res["robotools_from_scratch"] = subprocess.run([PY, "-c", "import robotools;print(robotools.__file__)"], cwd=t_pa, capture_output=True, text=True).stdout.strip().startswith(str(t_pa))
        res["tests_with_patch"] = run_tests(t_pa)
        res["demo_with_patch"] = run_demo(t_pa, demo)
        res["demo_without_patch"] = run_demo(t_un, demo)
    finally:
        shutil.rmtree(t_un, ignore_errors=True)
        shutil.rmtree(t_pa, ignore_errors=True)
    ok = res["robotools_from_scratch"] and res["tests_with_patch"][0] == 0 and "148 passed" in res["tests_with_patch"][1] \
        and res["demo_with_patch"][0] == 1 and res["demo_without_patch"][0] == 0
    print(json.dumps(res, indent=1)[:1500])
    if not ok:
        print(f"REJECTED {prop}-{name}")
        return 1
    dst = SEEDED / f"{prop}-{name}"
    dst.mkdir(parents=True, exist_ok=True)
    shutil.copy(patch, dst / "patch.diff")
    shutil.copy(demo, dst / "demo.py")
    meta = {
        "property": prop,
        "origin": "fresh sub-agent given only the property text and a scratch worktree",
        "summary": pm.get("summary"),
        "files": pm.get("files"),
        "needs_to_manifest": pm.get("needs_to_manifest"),
        "why_tests_pass": pm.get("why_tests_pass"),
        "confirmed": {
            "command": f"selftest/run_seeded.py intake {prop} {name} <agent output dir>",
            "tests_with_patch": res["tests_with_patch"][1],
            "demo_exit_with_patch": res["demo_with_patch"][0],
            "demo_exit_without_patch": res["demo_without_patch"][0],
            "demo_output_with_patch": res["demo_with_patch"][1][-300:],
        },
        "detection": {},
    }
    (dst / "meta.json").write_text(json.dumps(meta, indent=1, ensure_ascii=False) + "\n")
    print(f"ACCEPTED {prop}-{name} -> {dst}")
    return 0


def check(which, tier, also):
    ids = sorted(p.name for p in SEEDED.iterdir() if p.is_dir()) if which == "all" else [which]
    bad = 0
    for sid in ids:
        d = SEEDED / sid
        meta = json.loads((d / "meta.json").read_text())
        props = [meta["property"]] + [a for a in also if a != meta["property"]]
        try:
            tmp = scratch(d / "patch.diff")
        except RuntimeError as e:
            print(f"STALE {sid}: {str(e)[:120]}", flush=True)
            bad += 1
            continue
        try:
            for prop in props:
                env = dict(os.environ, RVMON_REPO=str(tmp), RVMON_KEEP_REPLAYS="1")
                t0 = time.time()
                r = subprocess.run([str(HERE / "bin" / "check"), prop, tier], env=env, capture_output=True, text=True)
                rules = sorted({l.split("rule=")[-1] for l in r.stdout.splitlines() if l.startswith("VIOLATION")})
                status = {0: "held", 1: "VIOLATION", 2: "inconclusive"}.get(r.returncode, f"rc{r.returncode}")
                own = prop == meta["property"]
                if own:
                    meta["detection"][tier] = {"status": status, "rules": rules, "wall_s": round(time.time() - t0, 1)}
                    bad += status != "VIOLATION"
                else:
                    meta["detection"].setdefault("other_checks_" + tier, {})[prop] = status
                print(f"{'ok  ' if status == 'VIOLATION' else ('MISS' if own else '    ')} {sid} {prop} {tier} {status} {','.join(rules)[:160]} ({time.time() - t0:.1f}s)", flush=True)
                for f in (HERE / "replays" / prop).glob("*.json") if (HERE / "replays" / prop).exists() else []:
                    f.unlink()
        finally:
            shutil.rmtree(tmp, ignore_errors=True)
        (d / "meta.json").write_text(json.dumps(meta, indent=1, ensure_ascii=False) + "\n")
    return 1 if bad else 0


def reverify(which):
    """Re-confirm stored seeded changes against the CURRENT /repo: patch applies, 148 tests pass with
    it, demo exits 1 with and 0 without the patch."""
    ids = sorted(p.name for p in SEEDED.iterdir() if p.is_dir()) if which == "all" else [which]
    bad = 0
    t_un = scratch()
    try:
        for sid in ids:
            d = SEEDED / sid
            meta = json.loads((d / "meta.json").read_text())
            try:
                t_pa = scratch(d / "patch.diff")
            except RuntimeError as e:
                print(f"FAIL {sid}: {e}")
                bad += 1
                continue
            try:
                tests = run_tests(t_pa)
                w = run_demo(t_pa, d / "demo.py")
                wo = run_demo(t_un, d / "demo.py")
            finally:
                shutil.rmtree(t_pa, ignore_errors=True)
            head = subprocess.run(["git", "-C", "/repo", "log", "--format=%h", "-1"], capture_output=True, text=True).stdout.strip()
            ok = tests[0] == 0 and "148 passed" in tests[1] and w[0] == 1 and wo[0] == 0
            meta["reconfirmed"] = {"repo_head": head, "tests_with_patch": tests[1], "demo_exit_with_patch": w[0], "demo_exit_without_patch": wo[0], "ok": ok}
            (d / "meta.json").write_text(json.dumps(meta, indent=1, ensure_ascii=False) + "\n")
            print(f"{'ok  ' if ok else 'FAIL'} {sid} tests={tests[1]!r} demo_with={w[0]} demo_without={wo[0]}", flush=True)
            bad += not ok
    finally:
        shutil.rmtree(t_un, ignore_errors=True)
    return 1 if bad else 0


if __name__ == "__main__":
    a = sys.argv[1:]
    if a[0] == "intake":
        sys.exit(intake(a[1], a[2], a[3]))
    if a[0] == "reverify":
        sys.exit(reverify(a[1] if len(a) > 1 else "all"))
    also = []
    if "--also" in a:
        i = a.index("--also")
        also = a[i + 1].split(",")
        a = a[:i] + a[i + 2:]
    tier = a[2] if len(a) > 2 else "quick"
    sys.exit(check(a[1], tier, also))
