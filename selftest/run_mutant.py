#!/venv/bin/python
"""Apply catalogue mutants to a scratch copy of /repo (outside /repo and /verif), run a check on it.

usage: selftest/run_mutant.py <mutant-id|all> [property] [tier]     (default property: the mutant's own)
       selftest/run_mutant.py --patch <file.diff> <property> [tier]

Expectation: exit 1 (VIOLATION) for property-breaking mutants, exit 0 for the equivalent ones
(m27, m29, m31).  The scratch copy is removed afterwards.
"""
import os
import shutil
import subprocess
import sys
import tempfile
from pathlib import Path

HERE = Path(__file__).resolve().parent
sys.path.insert(0, str(HERE))
from mutants_seed import M  # noqa: E402

EQUIV = {"m27", "m29", "m30"}  # m30: R == 1 implies r == 0, so the edit changes nothing
# (m31 was equivalent for wells inside the shifted region only; since unshift is also judged on wells outside of it
#  - repair D40 - it answers such wells with a wrong well for single-column plates and counts as a true positive)


def run(mid, prop, file, old, new, tier, patch=None):
    tmp = Path(tempfile.mkdtemp(prefix=f"rvmon-mut-{mid}-", dir="/var/tmp"))
    try:
        shutil.copytree("/repo/robotools", tmp / "robotools", ignore=shutil.ignore_patterns("__pycache__"))
        if patch:
            subprocess.run(["patch", "-p1", "-s", "-d", str(tmp), "-i", str(Path(patch).resolve())], check=True)
        else:
            p = tmp / file
            s = p.read_text()
            if s.count(old) != 1:
                return mid, prop, "SKIP(no unique match on current tree)", 0.0
            p.write_text(s.replace(old, new))
        env = dict(os.environ, RVMON_REPO=str(tmp))
        import time

        t0 = time.time()
        r = subprocess.run([str(HERE.parent / "bin" / "check"), prop, tier], env=env, capture_output=True, text=True)
        dt = time.time() - t0
        rules = sorted({l.split("rule=")[-1] for l in r.stdout.splitlines() if l.startswith("VIOLATION")})
        status = {0: "held", 1: "VIOLATION", 2: "inconclusive"}.get(r.returncode, f"rc{r.returncode}")
        if r.returncode not in (0, 1):
            status += " " + " | ".join(l for l in r.stdout.splitlines() if l.startswith("INCONCLUSIVE"))[:300]
        return mid, prop, status + (" " + ",".join(rules)[:200] if rules else ""), dt
    finally:
        shutil.rmtree(tmp, ignore_errors=True)


def main():
    a = sys.argv[1:]
    if a and a[0] == "--patch":
        print(*run(Path(a[1]).stem, a[2], None, None, None, a[3] if len(a) > 3 else "quick", patch=a[1]))
        return
    which = a[0] if a else "all"
    prop_override = a[1] if len(a) > 1 and a[1].startswith("C") else None
    tier = a[-1] if a and a[-1] in ("quick", "thorough") else "quick"
    have = {p.stem for p in (HERE.parent / "rvmon" / "props").glob("C*.py")}
    bad = 0
    results = []
    for mid, prop, file, old, new in M:
        if which != "all" and which != mid and which != prop:
            continue
        prop = prop_override or prop
        if prop not in have:
            continue
        res = run(mid, prop, file, old, new, tier)
        expect = "held" if mid in EQUIV else "VIOLATION"
        ok = res[2].startswith(expect) or res[2].startswith("SKIP")
        bad += not ok
        print(f"{'ok  ' if ok else 'MISS'} {res[0]} {res[1]} {res[2]} ({res[3]:.1f}s)", flush=True)
        st = res[2].split(" ", 1)
        results.append({"id": mid, "property": prop, "status": st[0] + (" (equivalent / property-preserving: must stay silent)" if mid in EQUIV else ""),
                        "rules": st[1] if len(st) > 1 else "", "as_expected": bool(ok)})
    if which == "all" and not prop_override:
        import json

        (HERE / "catalogue_results.json").write_text(json.dumps(results, indent=1) + "\n")
    sys.exit(1 if bad else 0)


if __name__ == "__main__":
    main()
