"""Online history engine: generates hostile operation histories *against the observed state*
of the real objects (so that limits can be aimed at exactly), executes them, feeds monitors.

A history case is ``{"worklist": cfg, "worktable": [...], "n_ops": N, "opseed": S, "profile": name}``;
the operations are derived deterministically from ``opseed`` and the observed volumes, so a
replay against the same tree reproduces the same history (executed operations are kept in
``engine.trace`` and attached to every violation).
"""
from __future__ import annotations

import math
import random

import numpy as np

from . import attach
from .attach import ROWS, flat_f, fr, near, real_index
from .core import dec, enc
from .world import World, all_well_ids, gen_volume, narrow_scalar, shape_volumes, shape_wells, well_id

LABELS = [None, None, "", "step", "fill up", "µL", "wash; no", "last", "first", "  padded  ", "tab\t"]
SAFE_LABELS = [None, None, "", "step", "fill up", "µL", "serial 1:2", "last", "first", "initial", "  padded  ", "tab\t"]


# ---------------------------------------------------------------------------------------------
# profiles
# ---------------------------------------------------------------------------------------------
PROFILES = {
    # hostile limits (C02)
    "limits": {
        "ops": {"add": 4, "remove": 4, "aspirate": 3, "dispense": 3, "transfer": 4, "distribute": 2, "evo_aspirate": 1, "evo_dispense": 1, "set_limits": 0.4},
        "aims": {"ok": 8, "exact": 3, "ulp": 3, "beyond": 3, "huge": 1, "inf": 1, "nan": 0.3, "neg": 0.3, "zero": 1, "cumulative": 2, "step_over": 1},
        "fault_rate": 0.55,
        "comps": 0.5,
        "stop_on_error": False,
        "wl_kwargs": 0.1,
    },
    # mostly successful, shape-rich (C04)
    "ledger": {
        "ops": {"add": 4, "remove": 4, "aspirate": 3, "dispense": 3, "transfer": 5, "distribute": 2, "evo_aspirate": 1, "evo_dispense": 1},
        "aims": {"ok": 12, "exact": 1, "beyond": 1, "zero": 1, "cumulative": 1, "step_over": 0.7},
        "fault_rate": 0.12,
        "comps": 0.3,
        "stop_on_error": False,
        "wl_kwargs": 0.1,
    },
    # composition (C05): always known compositions, successful
    "composition": {
        "ops": {"add": 2, "remove": 1, "aspirate": 1, "dispense": 3, "transfer": 8, "distribute": 3, "evo_dispense": 1},
        "aims": {"ok": 12, "zero": 1.5, "exact": 0.5, "beyond": 1.0},  # a refused element now and then: what was applied before it stays consistent
        "fault_rate": 0.1,
        "comps": 1.0,
        "stop_on_error": False,
        "wl_kwargs": 0.0,
    },
    # device-independent operations for the EVO/Fluent lock-step (C16)
    "lockstep": {
        "ops": {"aspirate": 3, "dispense": 3, "transfer": 8, "distribute": 3, "comment": 1, "wash": 1, "flush": 0.5, "commit": 1, "decontaminate": 0.3},
        "aims": {"ok": 8, "exact": 1, "ulp": 1, "beyond": 3, "huge": 0.5, "inf": 0.3, "zero": 1, "cumulative": 1, "step_over": 1},
        "fault_rate": 0.3,
        "comps": 0.6,
        "stop_on_error": False,
        "wl_kwargs": 0.3,
        "split_bias": 0.35,
    },
    # lock-step with transfers of several hundred partitions per pair
    "lockstep_deep": {
        "ops": {"transfer": 8, "aspirate": 1, "comment": 1},
        "aims": {"ok": 8, "zero": 1, "beyond": 1},
        "fault_rate": 0.1,
        "comps": 0.3,
        "stop_on_error": False,
        "wl_kwargs": 0.3,
        "split_bias": 0.8,
        "split_factors": [300, 300, 420],
        "uniform": 0.7,
        "fill_to_limit": True,
    },
    # history (C11)
    "history": {
        "ops": {"add": 2, "remove": 2, "aspirate": 2, "dispense": 2, "transfer": 8, "distribute": 2, "evo_aspirate": 1, "evo_dispense": 1},
        "aims": {"ok": 12, "zero": 3, "beyond": 1, "step_over": 2},
        "fault_rate": 0.15,
        "comps": 0.5,
        "stop_on_error": False,
        "wl_kwargs": 0.0,
        "split_bias": 0.4,
        "all_zero": 0.12,
    },
}


def _weighted(rng, table):
    ks = list(table)
    return rng.choices(ks, weights=[table[k] for k in ks])[0]


class Engine:
    def __init__(self, ctx, case, monitors, profile=None):
        self.ctx = ctx
        self.case = case
        self.world = World(case)
        self.att = self.world.att
        self.rng = random.Random(case["opseed"])
        self.profile = profile or PROFILES[case["profile"]]
        self.monitors = monitors
        self.trace = []
        self.descs = self.world.descs
        self.device = self.world.device
        self.vclass = case.get("vclass", "int")
        self.wlmax = float(case["worklist"].get("max_volume", 950))
        self.stopped = False

    # -- observed state ------------------------------------------------------------------------
    def cur(self, name):
        return np.array(self.world.lw[name].volumes, dtype=float, copy=True)

    # -- aiming --------------------------------------------------------------------------------
    def _class_value(self, hi):
        rng = self.rng
        if hi <= 0:
            return 0.0
        v = gen_volume(rng, self.vclass, max(hi, 0.02))
        if v > hi:
            v = hi * rng.choice([0.25, 0.5, 0.75])
            if self.vclass == "int":
                v = float(math.floor(v))
            elif self.vclass == "quarter":
                v = math.floor(v * 4) / 4
            elif self.vclass == "cent":
                v = math.floor(v * 100) / 100
        return float(max(v, 0.0))

    def aim(self, room, kind):
        """A volume for one element given the remaining margin ``room`` to the limit (float)."""
        rng = self.rng
        if kind == "ok":
            return self._class_value(min(room * rng.choice([0.3, 0.6, 0.9, 1.0]), 400.0 if rng.random() < 0.8 else room))
        if kind == "zero":
            return 0.0
        if kind == "exact":
            return max(room, 0.0)
        if kind == "ulp":
            return math.nextafter(max(room, 0.0), math.inf)
        if kind == "beyond":
            return max(room, 0.0) + rng.choice([0.01, 0.25, 1.0, 1e-6 * max(room, 1.0), 1e-9, 100.0])
        if kind == "step_over":
            # more than one pipetting step may carry, although the labware could give / take it
            if math.isfinite(self.wlmax) and room > self.wlmax + 0.01:
                self.ctx.count("volume_above_the_step_limit_that_the_labware_could_supply")
                return min(room, self.wlmax + rng.choice([0.01, 0.25, 1.0, self.wlmax]))
            return self.aim(room, "beyond")
        if kind == "huge":
            return rng.choice([1e300, 1e18, 7158279.0, 7158279.0, 8e6, 10**20, 2**64, 10**30])  # floats and Python integers beyond 64 bit
        if kind == "inf":
            return math.inf
        if kind == "nan":
            return math.nan
        if kind == "neg":
            return -rng.choice([1.0, 0.25, 1e-9, 100.0])
        raise ValueError(kind)

    def pick_aims(self, n):
        """Per-element aims: all 'ok' (or zero), with probability fault_rate one faulty position."""
        rng = self.rng
        aims = ["zero" if rng.random() < 0.07 else "ok" for _ in range(n)]
        fault = None
        if rng.random() < self.profile["fault_rate"]:
            table = {k: v for k, v in self.profile["aims"].items() if k not in ("ok",)}
            if table:
                fault = _weighted(rng, table)
                k = rng.randrange(n)
                aims[k] = fault
                return aims, (fault, k)
        return aims, None

    # -- operand choice ------------------------------------------------------------------------
    def pick_wells(self, name, n=None, same_column=False):
        rng = self.rng
        d = self.descs[name]
        ids = all_well_ids(d)
        if same_column:
            c = rng.randrange(d["columns"])
            nrows = d["virtual_rows"] if d["kind"] == "trough" else d["rows"]
            k = rng.randint(1, min(8, nrows))
            rows = sorted(rng.sample(range(nrows), k))
            return [(well_id(r, c), real_index(d, well_id(r, c))) for r in rows]
        n = n or rng.choice([1, 1, 2, 3, 4, 6])
        if d["columns"] >= 1000 and rng.random() < 0.6:
            ids = [x for x in ids if x[1][1] >= 996]  # the far end of the strip (around the step to four digits)
        mode = rng.choice(["random", "random", "repeat", "alias", "block"])
        if mode == "repeat":
            pool = [rng.choice(ids) for _ in range(max(1, n // 2))]
            return [rng.choice(pool) for _ in range(n)]
        if mode == "alias" and d["kind"] == "trough":
            c = rng.randrange(d["columns"])
            return [(well_id(rng.randrange(d["virtual_rows"]), c), (0, c)) for _ in range(n)]
        if mode == "block":
            start = rng.randrange(len(ids))
            return [ids[(start + i) % len(ids)] for i in range(n)]
        return [rng.choice(ids) for _ in range(n)]

    def comps_for(self, n):
        """Explicit known compositions supplied by the harness for direct add / dispense."""
        rng = self.rng
        out = []
        for _ in range(n):
            k = rng.choice([1, 1, 2, 3])
            names = rng.sample(["water", "stock", "buffer µ", "L0@0.0", "dye"], k)
            if k == 1:
                out.append({names[0]: 1.0})
            else:
                cuts = sorted(rng.choice([0.25, 0.5, 0.125, 0.75, 0.1, 0.3]) for _ in range(k - 1))
                parts, last = [], 0.0
                ok = True
                for c_ in cuts:
                    parts.append(c_ - last)
                    last = c_
                parts.append(1.0 - last)
                if any(p <= 0 for p in parts):
                    out.append({names[0]: 1.0})
                else:
                    out.append(dict(zip(names, parts)))
        return out

    # -- operation generators --------------------------------------------------------------------
    def gen_single(self, kind):
        """add / remove / aspirate / dispense on one labware."""
        rng = self.rng
        name = rng.choice(list(self.descs))
        d = self.descs[name]
        ws = self.pick_wells(name)
        n = len(ws)
        aims, fault = self.pick_aims(n)
        cur = self.cur(name)
        adding = kind in ("add", "dispense")
        pending = {}
        vols = []
        cumulative = fault and fault[0] == "cumulative"
        if cumulative and n >= 2:
            # the same well twice: each part fits, together they cross the limit
            k = fault[1]
            j = (k + 1) % n
            ws[j] = ws[k]
            aims[k] = aims[j] = "ok"
        for i, ((wid, idx), a) in enumerate(zip(ws, aims)):
            if a == "cumulative":
                a = "beyond"
            room = (d["max_volume"] - cur[idx] - pending.get(idx, 0.0)) if adding else (cur[idx] - d["min_volume"] - pending.get(idx, 0.0))
            if kind in ("aspirate", "dispense") and a == "ok":
                room = min(room, self.wlmax)
            if a == "step_over" and kind in ("add", "remove"):
                a = "ok"  # direct add / remove know no step limit
            v = self.aim(room, a)
            if cumulative and n >= 2 and i in (fault[1], (fault[1] + 1) % n):
                v = max(room, 0.0) * 0.6 if i == fault[1] else max(d["max_volume"] - cur[idx] if adding else cur[idx] - d["min_volume"], 0.0) * 0.6
            vols.append(v)
            if math.isfinite(v):
                pending[idx] = pending.get(idx, 0.0) + v
        ids = [w for w, _ in ws]
        w_arg, shp = shape_wells(rng, ids)
        if shp == "scalar" and n > 1:
            w_arg, shp = list(ids), "list"
        v_arg, vshp = shape_volumes(rng, vols, shp if shp.startswith("2d") else None)
        op = {"op": kind, "lw": name, "wells": enc(w_arg), "vol": enc(v_arg), "label": rng.choice(LABELS if kind in ("add", "remove") else SAFE_LABELS),
              "_fault": fault, "_shapes": [shp, vshp]}
        if adding:
            if rng.random() < self.profile["comps"]:
                comps = self.comps_for(n)
                for i, (wid_, _idx) in enumerate(ws):
                    # now and then the incoming liquid is *almost* what the well already holds (another lot of the
                    # same mixture, 2 ppm off): it is still a different liquid
                    if rng.random() < 0.2:
                        try:
                            have = self.world.lw[name].get_well_composition(wid_)
                        except Exception:
                            have = None
                        if have and len(have) >= 2:
                            ks = sorted(have)
                            a_, b_ = ks[0], ks[1]
                            d_ = float(have[a_]) * 2e-6
                            if float(have[b_]) > d_ > 0 and all(math.isfinite(float(x)) for x in have.values()):
                                near_ = {k_: float(x) for k_, x in have.items()}
                                near_[a_] += d_
                                near_[b_] -= d_
                                comps[i] = near_
                                self.ctx.count("incoming_liquid_almost_equal_to_the_content")
                op["comps"] = enc(comps)
            else:
                op["comps"] = None
        if kind in ("aspirate", "dispense") and rng.random() < self.profile.get("wl_kwargs", 0):
            op["kw"] = enc({"liquid_class": "Water", "tip": rng.randint(1, 8)})
        return op

    def gen_transfer(self):
        rng = self.rng
        names = list(self.descs)
        src = rng.choice(names)
        dst = rng.choice(names) if rng.random() < 0.75 else src
        sd, dd = self.descs[src], self.descs[dst]
        n = rng.choice([1, 1, 2, 3, 4, 6, 8])
        mode = rng.choice(["mm", "mm", "one-many", "many-one", "column"])
        if mode == "column":
            nr_s = sd["virtual_rows"] if sd["kind"] == "trough" else sd["rows"]
            nr_d = dd["virtual_rows"] if dd["kind"] == "trough" else dd["rows"]
            n = min(nr_s, nr_d, 8)
            sc, dc = rng.randrange(sd["columns"]), rng.randrange(dd["columns"])
            sw = [(well_id(r, sc), real_index(sd, well_id(r, sc))) for r in range(n)]
            dw = [(well_id(r, dc), real_index(dd, well_id(r, dc))) for r in range(n)]
        else:
            sw = self.pick_wells(src, n)
            dw = self.pick_wells(dst, n)
            if mode == "one-many":
                sw = [sw[0]] * n
            elif mode == "many-one":
                dw = [dw[0]] * n
            if src == dst and rng.random() < 0.15:
                dw = list(sw)  # every step returns the liquid to the cavity it came from (mixing in place)
        cs, cd = self.cur(src), self.cur(dst)
        aims, fault = self.pick_aims(n)
        if self.profile.get("all_zero") and rng.random() < self.profile["all_zero"]:
            aims, fault = ["zero"] * n, None
        rem, add = {}, {}
        vols = []
        split_bias = self.profile.get("split_bias", 0.2)
        for (sid, sidx), (did, didx), a in zip(sw, dw, aims):
            avail = cs[sidx] - sd["min_volume"] - rem.get(sidx, 0.0)
            room = dd["max_volume"] - cd[didx] - add.get(didx, 0.0)
            if a == "cumulative":
                a = "beyond"
            if a == "ok":
                lim = min(avail, room)
                if rng.random() > split_bias:
                    lim = min(lim, self.wlmax)
                else:
                    lim = min(lim, self.wlmax * rng.choice(self.profile.get("split_factors", [1.5, 2, 3, 5, 12, 30])))
                v = self._class_value(lim * rng.choice([0.5, 0.9, 1.0])) if lim > 0 else 0.0
                if self.profile.get("fill_to_limit") and lim > 1:
                    v = float(math.floor(lim * rng.choice([0.9, 1.0])))
                if v > self.wlmax and rng.random() < 0.15:
                    # a hair above a whole number of steps (the last partition is tiny but real)
                    k_ = max(1, int(v // self.wlmax))
                    cand = k_ * self.wlmax + rng.choice([4e-4, 1e-4, 1e-5, 2e-3])
                    if cand <= min(avail, room):
                        v = cand
                elif math.isfinite(self.wlmax) and 0 < self.wlmax <= 200 and rng.random() < 0.12:
                    # the same with so many steps that every full step IS the step limit (a step is a whole number of
                    # microlitres unless the limit is smaller: from k > c / (limit - c) steps on, c = ceil(limit) - 1,
                    # nothing is left to round)
                    c_ = math.ceil(self.wlmax) - 1
                    k_ = int(c_ / (self.wlmax - c_)) + rng.choice([0, 1, 1, 2, 4])
                    cand = k_ * self.wlmax + rng.choice([4e-3, 2e-3, 4e-4, 1e-4, 1e-5])
                    if 1 <= k_ <= 1400 and cand <= min(avail, room):
                        v = cand
                        self.ctx.count("transfer_volume_a_hair_above_many_full_steps")
            else:
                side = rng.choice(["src", "dst"])
                v = self.aim(avail if side == "src" else room, a)
                # keep the number of large-volume steps bounded (partition_volume allocates a list of
                # that length; a same-well transfer would cycle through all of them)
                if math.isfinite(v) and v > 1500 * self.wlmax:
                    v = 1500 * self.wlmax
                if src == dst and sidx == didx and math.isfinite(v) and v > 20 * self.wlmax:
                    v = 20 * self.wlmax
            vols.append(v)
            if math.isfinite(v) and v > 0:
                rem[sidx] = rem.get(sidx, 0.0) + v
                add[didx] = add.get(didx, 0.0) + v
        if self.profile.get("uniform") and fault is None and all(a_ == "ok" for a_ in aims) and rng.random() < self.profile["uniform"]:
            vols = [min(vols)] * len(vols)  # the same volume for every pair (fits wherever the individual ones did)
        s_ids, d_ids = [w for w, _ in sw], [w for w, _ in dw]
        if mode == "one-many" and rng.random() < 0.6:
            s_arg, s_shp = s_ids[0], "scalar"
        else:
            s_arg, s_shp = shape_wells(rng, s_ids)
        if mode == "many-one" and rng.random() < 0.6:
            d_arg, d_shp = d_ids[0], "scalar"
        elif s_shp.startswith("2d"):
            r, c = map(int, s_shp[3:].split("x"))
            d_arg, d_shp = enc(np.array([[d_ids[j * r + i] for j in range(c)] for i in range(r)])), s_shp
        else:
            d_arg, d_shp = shape_wells(rng, d_ids)
        if n > 1 and s_shp == "scalar" and mode != "one-many":
            s_arg, s_shp = list(s_ids), "list"
        if n > 1 and d_shp == "scalar" and mode != "many-one":
            d_arg, d_shp = list(d_ids), "list"
        like = s_shp if s_shp.startswith("2d") else (d_shp if d_shp.startswith("2d") else None)
        v_arg, v_shp = shape_volumes(rng, vols, like)
        if v_shp == "scalar" and n > 1 and s_shp == "scalar" and d_shp == "scalar":
            v_arg, v_shp = list(vols), "list"
        return {
            "op": "transfer", "src": src, "sw": enc(s_arg), "dst": dst, "dw": enc(d_arg), "vol": enc(v_arg),
            "label": rng.choice(SAFE_LABELS), "wash": rng.choice([1, 2, 3, 4, "flush", "reuse"]),
            "pb": rng.choice(["auto", "auto", "source", "destination"]), "kw": self._transfer_kwargs(),
            "_fault": fault, "_shapes": [s_shp, d_shp, v_shp, mode],
        }

    def _transfer_kwargs(self):
        if self.rng.random() < self.profile.get("wl_kwargs", 0):
            from .gen import gen_kwargs

            return gen_kwargs(self.rng, 2)
        return {}

    def gen_distribute(self):
        rng = self.rng
        troughs = [n for n, d in self.descs.items() if d["kind"] == "trough"]
        if not troughs:
            return None
        src = rng.choice(troughs)
        sd = self.descs[src]
        col = rng.randrange(sd["columns"])
        dst = rng.choice(list(self.descs))
        dd = self.descs[dst]
        ids = all_well_ids(dd)
        if dd["kind"] == "trough" and self.profile.get("distinct_positions"):
            seen, u = set(), []
            for w, idx in ids:
                if idx not in seen:
                    seen.add(idx)
                    u.append((w, idx))
            ids = u
        k = max(1, min(rng.choice([1, 2, 3, 5, 8, 12]), len(ids)))
        chosen = rng.sample(ids, k)
        if not self.profile.get("distinct_positions") and rng.random() < 0.1:
            chosen.append(rng.choice(chosen))  # a destination well listed twice is charged twice
            k += 1
        cs, cd = self.cur(src), self.cur(dst)
        avail = cs[(0, col)] - sd["min_volume"]
        rooms = [dd["max_volume"] - cd[idx] for _, idx in chosen]
        if len({idx for _, idx in chosen}) < len(chosen):
            rooms = [r / 3 for r in rooms]  # a real well that is hit several times receives the volume several times
        aims, fault = self.pick_aims(1)
        a = aims[0]
        if self.profile.get("all_zero") and rng.random() < self.profile["all_zero"]:
            a, fault = "zero", None
        if a in ("ok", "zero"):
            lim = min(avail / k, min(rooms), self.wlmax)
            v = 0.0 if a == "zero" else (self._class_value(lim) if lim > 0 else 0.0)
        else:
            if a == "cumulative":
                a = "beyond"
            side = rng.choice(["src", "dst", "wlmax"])
            if side == "src":
                v = self.aim(avail, a) / k if a in ("exact", "ulp", "beyond") else self.aim(avail, a)
                if a == "beyond":
                    v = (max(avail, 0.0) + rng.choice([0.01, 1.0])) / k + 1e-9
            elif side == "dst":
                v = self.aim(min(rooms), a)
            else:
                v = self.aim(self.wlmax, a)
        kw = {}
        if rng.random() < 0.5:
            kw["multi_disp"] = rng.choice([1, 2, 6, 12])
        if rng.random() < 0.5:
            kw["label"] = rng.choice([l for l in SAFE_LABELS if l is not None])
        d_arg, d_shp = shape_wells(rng, [w for w, _ in chosen])
        if d_shp == "scalar" and k > 1:
            d_arg = [w for w, _ in chosen]
        return {"op": "distribute", "src": src, "col": col, "dst": dst, "dw": enc(d_arg), "vol": narrow_scalar(rng, enc(v)), "kw": kw,
                "_fault": (fault[0], 0) if fault else None, "_shapes": [d_shp]}

    def gen_evo(self, kind):
        if self.device != "evo":
            return None
        rng = self.rng
        name = rng.choice(list(self.descs))
        d = self.descs[name]
        ws = self.pick_wells(name, same_column=True)
        if rng.random() < 0.3:
            rng.shuffle(ws)  # wells in any order (the tracking must still charge well i with volume i)
        n = len(ws)
        tips = sorted(rng.sample(range(1, 9), n))
        if rng.random() < 0.3:
            rng.shuffle(tips)  # the tips in any order: which tip serves which well is the command's business, not the ledger's
        aims, fault = self.pick_aims(n)
        cur = self.cur(name)
        adding = kind == "evo_dispense"
        pending, vols = {}, []
        for (wid, idx), a in zip(ws, aims):
            if a == "cumulative":
                a = "beyond"
            room = (d["max_volume"] - cur[idx] - pending.get(idx, 0.0)) if adding else (cur[idx] - d["min_volume"] - pending.get(idx, 0.0))
            if a == "ok":
                room = min(room, self.wlmax)
            v = self.aim(room, a)
            vols.append(v)
            if math.isfinite(v):
                pending[idx] = pending.get(idx, 0.0) + v
        uniform = all(v == vols[0] for v in vols)
        v_arg = vols[0] if uniform and rng.random() < 0.5 else list(vols)
        op = {"op": kind, "lw": name, "wells": [w for w, _ in ws], "pos": enc(tuple(d["grid_site"]) if d.get("grid_site") else (rng.randint(1, 67), rng.randint(1, 128))),
              "tips": tips, "vol": enc(v_arg), "lc": rng.choice(["Water", "", "DMSO"]), "arm": rng.choice([0, 0, 1]),
              "label": rng.choice(SAFE_LABELS), "_fault": fault, "_shapes": ["list", "scalar" if not isinstance(v_arg, list) else "list"]}
        if n >= 4 and n % 2 == 0 and rng.random() < 0.3:
            # the wells as a 2-D block (read column-major like everywhere in robotools), the volumes as the flat list
            ids = list(op["wells"])
            r_ = rng.choice([2, n // 2])
            c_ = n // r_
            nested = [[ids[j * r_ + i] for j in range(c_)] for i in range(r_)]
            op["wells"] = nested if rng.random() < 0.5 else enc(np.array(nested))
            op["_shapes"][0] = f"2d:{r_}x{c_}"
        if adding:
            op["comps"] = enc(self.comps_for(n)) if rng.random() < self.profile["comps"] else None
        return op

    def gen_set_limits(self):
        """The limits are public attributes of a labware: the user corrects them after construction (another plate
        type, a measured dead volume).  The new values are consistent with the current filling (nothing above the
        new maximum); from then on they are the limits."""
        rng = self.rng
        name = rng.choice(list(self.descs))
        d = self.descs[name]
        cur = self.cur(name)
        top = float(np.max(cur)) if cur.size else 0.0
        new_max = max(top, 1.0) * rng.choice([1.0, 1.25, 2.0, 10.0]) + rng.choice([0.0, 0.5, 10.0])
        if rng.random() < 0.3:
            new_max = d["max_volume"]
        new_min = rng.choice([0.0, d["min_volume"], d["min_volume"] * 2 + 1.0, min(top, new_max) * 0.5, 5.0])
        if not (0 <= new_min < new_max) or new_max < top:
            new_min, new_max = d["min_volume"], max(d["max_volume"], top)
        return {"op": "set_limits", "lw": name, "min": float(new_min), "max": float(new_max)}

    def gen_op(self):
        kind = _weighted(self.rng, self.profile["ops"])
        if kind in ("add", "remove", "aspirate", "dispense"):
            return self.gen_single(kind)
        if kind == "transfer":
            return self.gen_transfer()
        if kind == "distribute":
            return self.gen_distribute() or self.gen_transfer()
        if kind == "comment":
            return {"op": "comment", "text": self.rng.choice(["note", "µ-step", "two\nlines", "", "  padded  "])}
        if kind == "wash":
            return {"op": "wash", "scheme": self.rng.choice([1, 2, 3, 4])}
        if kind in ("flush", "commit", "decontaminate"):
            return {"op": kind}
        if kind == "set_limits":
            return self.gen_set_limits()
        return self.gen_evo(kind) or self.gen_single("dispense" if kind == "evo_dispense" else "aspirate")

    # -- main loop -------------------------------------------------------------------------------
    def run(self):
        for m in self.monitors:
            m.start(self)
        for i in range(self.case["n_ops"]):
            op = self.gen_op()
            op["_i"] = i
            self.trace.append(op)
            for m in self.monitors:
                m.before(self, op)
            out = self.world.exec(op)
            if op["op"] == "set_limits" and out.exc is None:
                self.descs[op["lw"]]["min_volume"] = op["min"]
                self.descs[op["lw"]]["max_volume"] = op["max"]
            self.ctx.count("op:" + op["op"])
            if out.exc is not None:
                self.ctx.count("rejected:" + op["op"] + ":" + type(out.exc).__name__)
            else:
                self.ctx.count("accepted:" + op["op"])
            if op.get("_fault"):
                self.ctx.count("aim:" + op["_fault"][0])
            for m in self.monitors:
                m.after(self, op, out)
            if out.exc is not None and self.profile.get("stop_on_error"):
                break
        for m in self.monitors:
            m.finish(self)

    def tail(self, k=6):
        return enc([{kk: vv for kk, vv in o.items()} for o in self.trace[-k:]])


class Monitor:
    def start(self, eng):
        pass

    def before(self, eng, op):
        pass

    def after(self, eng, op, out):
        pass

    def finish(self, eng):
        pass


def addressed(eng, op):
    """{labware name: set of real indices} named by the operation's arguments (own decoding)."""
    k = op["op"]
    out = {}

    def put(name, ids):
        s = out.setdefault(name, set())
        for w in ids:
            idx = real_index(eng.descs[name], w)
            if idx is not None:
                s.add(idx)

    if k in ("add", "remove", "aspirate", "dispense", "evo_aspirate", "evo_dispense"):
        put(op["lw"], flat_f(dec(op["wells"])))
    elif k == "transfer":
        put(op["src"], flat_f(dec(op["sw"])))
        put(op["dst"], flat_f(dec(op["dw"])))
    elif k == "distribute":
        put(op["src"], [well_id(0, op["col"])])
        put(op["dst"], flat_f(dec(op["dw"])))
    return out


def elements(op):
    """[(labware, well id, signed volume)] requested by an operation, column-major, broadcast."""
    k = op["op"]
    if k in ("add", "dispense", "evo_dispense", "remove", "aspirate", "evo_aspirate"):
        w = flat_f(dec(op["wells"]))
        v = flat_f(dec(op["vol"]))
        if len(v) == 1:
            v = v * len(w)
        sign = 1 if k in ("add", "dispense", "evo_dispense") else -1
        return [(op["lw"], wi, sign * float(vi)) for wi, vi in zip(w, v)]
    if k == "transfer":
        s, d, v = flat_f(dec(op["sw"])), flat_f(dec(op["dw"])), flat_f(dec(op["vol"]))
        n = max(len(s), len(d), len(v))
        s = s * n if len(s) == 1 else s
        d = d * n if len(d) == 1 else d
        v = v * n if len(v) == 1 else v
        out = []
        for si, di, vi in zip(s, d, v):
            out.append((op["src"], si, -float(vi)))
            out.append((op["dst"], di, float(vi)))
        return out
    if k == "distribute":
        d = flat_f(dec(op["dw"]))
        v = float(dec(op["vol"]))
        return [(op["src"], well_id(0, op["col"]), -v * len(d))] + [(op["dst"], di, v) for di in d]
    return []
