"""Worktable descriptions, construction of the real objects, execution of JSON-able operations.

A *worktable description* is produced by the generator and is the single source of truth for
the oracles (gwl.Interp, model.Shadow).  The real ``Labware``/``Trough`` objects are built from it
and are only ever *observed*.
"""
from __future__ import annotations

import math
import random

import numpy as np

from . import attach
from .core import dec, enc

ROWS = attach.ROWS


# ---------------------------------------------------------------------------------------------
# generation helpers
# ---------------------------------------------------------------------------------------------
def well_id(r: int, c: int) -> str:
    return f"{ROWS[r]}{c + 1:02d}"


def gen_volume(rng: random.Random, cls: str, hi: float = 300.0) -> float:
    """A volume of the given class, in (0, hi]."""
    hi = max(hi, 0.02)
    if cls == "int":
        return float(rng.randint(1, max(1, int(hi))))
    if cls == "quarter":
        return rng.randint(1, max(1, int(hi * 4))) / 4.0
    if cls == "cent":
        return rng.randint(1, max(1, int(hi * 100))) / 100.0
    if cls == "dirty":
        return rng.choice(
            [rng.uniform(0.001, hi), round(rng.uniform(0.001, hi), 3), hi / 3.0, hi * 0.1, 0.1 * rng.randint(1, 9)]
        )
    raise ValueError(cls)


VOLUME_CLASSES = ("int", "quarter", "cent", "dirty")
GRID_CLASSES = ("int", "quarter", "cent")


def gen_geometry(rng: random.Random, kind: str, small=False):
    if kind == "trough":
        vr = rng.choice([1, 2, 3, 4, 6, 8, 8, 12, 16, rng.randint(1, 16)])
        cols = rng.choice([1, 1, 2, 3, 4])
        return {"rows": 1, "columns": cols, "virtual_rows": vr}
    cls = rng.choice(["1x1", "row", "col", "small", "small", "small", "mtp", "big", "rand"])
    if small and cls in ("mtp", "big", "rand"):
        cls = "small"
    if rng.random() < 0.03:
        cls = "wide"  # three-digit column numbers (only the rows are limited to 26)
    if cls == "1x1":
        r, c = 1, 1
    elif cls == "row":
        r, c = 1, rng.randint(2, 12)
    elif cls == "col":
        r, c = rng.randint(2, 8), 1
    elif cls == "small":
        r, c = rng.randint(2, 4), rng.randint(2, 6)
    elif cls == "mtp":
        r, c = 8, 12
    elif cls == "wide":
        r, c = rng.choice([1, 1, 2]), rng.randint(100, 125)
        if rng.random() < 0.25:
            r, c = 1, rng.randint(1000, 1010)  # four-digit column numbers
    elif cls == "big":
        r, c = rng.choice([(16, 24), (6, 8), (4, 6)])
    else:
        r, c = rng.randint(1, 16), rng.randint(1, 24)
    return {"rows": r, "columns": c, "virtual_rows": None}


def gen_labware(rng, name, kind=None, vclass="int", fill="mixed", limits="loose", naming="explicit", small=False):
    """A random labware description."""
    kind = kind or rng.choice(["plate", "plate", "trough"])
    g = gen_geometry(rng, kind, small=small)
    rows, cols = g["rows"], g["columns"]
    if limits == "tight":
        max_volume = float(rng.choice([100, 200, 250.5, 300, 1000]))
        min_volume = float(rng.choice([0, 0, 5, 10, 20.5]))
    elif limits == "wide":
        max_volume = float(rng.choice([1e5, 1e6, 5e4]))
        min_volume = float(rng.choice([0, 0, 0, 100, 1000]))
    else:
        max_volume = float(rng.choice([2000, 5000, 10000, 30000, 1e5]))
        min_volume = float(rng.choice([0, 0, 0, 10, 50, 100.5]))
    if limits == "reservoir" or limits != "tight" and rng.random() < (0.15 if kind == "trough" else 0.04):
        # a reservoir with a large dead volume (limits in the tens of millilitres)
        min_volume = float(rng.choice([5000, 10000, 20000, 50000]))
        max_volume = float(rng.choice([1e5, 2e5, 1e6]))
    initial = []
    for r in range(rows):
        row = []
        for c in range(cols):
            mode = fill if fill != "mixed" else rng.choice(["empty", "half", "half", "full", "low"])
            if mode == "empty":
                v = 0.0
            elif mode == "full":
                v = max_volume
            elif mode == "low":
                v = min(max_volume, gen_volume(rng, vclass, max(1.0, min_volume + 5)))
            elif mode == "half":
                lo = min_volume
                v = min(max_volume, lo + gen_volume(rng, vclass, max(1.0, (max_volume - lo) * 0.6)))
            else:
                v = float(mode)
            row.append(float(v))
        initial.append(row)
    if cols >= 1000:
        # a strip of > 1000 positions: only a handful of them filled (keeps the component tables small)
        keep = {(rng.randrange(rows), rng.choice([0, 1, 98, 99, 100, 998, 999, 1000, cols - 1])) for _ in range(5)}
        initial = [[(initial[r][c] if (r, c) in keep else 0.0) for c in range(cols)] for r in range(rows)]
    d = {
        "kind": kind,
        "name": name,
        "rows": rows,
        "columns": cols,
        "virtual_rows": g["virtual_rows"],
        "min_volume": min_volume,
        "max_volume": max_volume,
        "initial": initial,
        "naming": naming,
        "names": None,
    }
    # fixed, unique deck position (grid, site) per labware: lets the interpreter resolve script commands
    try:
        i = int(name[1:])
    except ValueError:
        i = 0
    d["grid_site"] = [10 + 3 * i, 1 + i]
    if kind == "trough" and naming == "explicit" and rng.random() < 0.15:
        d["legacy"] = True
    elif rng.random() < 0.1:
        d["subclass"] = True
    if naming == "explicit":
        d["names"] = {f"{r},{c}": f"{name}@{r}.{c}" for r in range(rows) for c in range(cols) if initial[r][c] > 0}
    return d


def all_well_ids(desc):
    """Every addressable well id (virtual rows included), as (id, real index)."""
    rows = desc["virtual_rows"] if desc["kind"] == "trough" else desc["rows"]
    out = []
    for c in range(desc["columns"]):
        for r in range(rows):
            out.append((well_id(r, c), (0, c) if desc["kind"] == "trough" else (r, c)))
    return out


# ---------------------------------------------------------------------------------------------
# construction of the real objects
# ---------------------------------------------------------------------------------------------
def _limit(desc, key):
    """The limit as the caller passes it: a Python number, or the numpy.float32 scalar of the same value."""
    v = desc[key]
    if desc.get("limits_as") == "float32":
        v32 = np.float32(v)
        assert float(v32) == float(v), "a description with single-precision limits holds representable values"
        return v32
    return v


def _initial(desc, arr):
    """The initial volumes as the caller passes them (float64, or a float32 array of the same values)."""
    if desc.get("initial_as") == "float32":
        a32 = np.asarray(arr, dtype=np.float32)
        assert np.array_equal(a32.astype(float), np.asarray(arr, dtype=float)), "representable initial volumes"
        return a32
    return arr


def build_labware(desc):
    import robotools

    names = desc.get("names")
    if desc["kind"] == "trough" and desc.get("legacy"):
        # legacy construction: a Labware with virtual rows (not an instance of Trough)
        kw = {}
        if names is not None:
            kw["component_names"] = {well_id(0, int(k.split(",")[1])): v for k, v in names.items()}
        return robotools.Labware(
            desc["name"], 1, desc["columns"], min_volume=_limit(desc, "min_volume"), max_volume=_limit(desc, "max_volume"),
            initial_volumes=_initial(desc, np.array(desc["initial"], dtype=float)), virtual_rows=desc["virtual_rows"], **kw,
        )
    if desc["kind"] == "trough":
        kw = {}
        if names is not None:
            kw["column_names"] = [names.get(f"0,{c}") for c in range(desc["columns"])]
        return (_user_subclass(robotools.Trough) if desc.get("subclass") else robotools.Trough)(
            desc["name"],
            desc["virtual_rows"],
            desc["columns"],
            min_volume=_limit(desc, "min_volume"),
            max_volume=_limit(desc, "max_volume"),
            initial_volumes=list(desc["initial"][0]) if desc.get("initial_as") != "float32" else _initial(desc, np.array(desc["initial"][0], dtype=float)),
            **kw,
        )
    kw = {}
    if names is not None:
        kw["component_names"] = {
            well_id(int(k.split(",")[0]), int(k.split(",")[1])): v for k, v in names.items()
        }
    arr = np.array(desc["initial"], dtype=float)
    if desc.get("shares_initial_array_with"):
        # the caller passes the very same array object to two labware (a template plate and its replica)
        arr = SHARED_ARRAYS.setdefault(desc["shares_initial_array_with"], arr)
    elif desc.get("array_is_shared"):
        SHARED_ARRAYS[desc["name"]] = arr
    lw = (_user_subclass(robotools.Labware) if desc.get("subclass") else robotools.Labware)(
        desc["name"],
        desc["rows"],
        desc["columns"],
        min_volume=_limit(desc, "min_volume"),
        max_volume=_limit(desc, "max_volume"),
        initial_volumes=_initial(desc, arr),
        **kw,
    )
    # the caller's own array, kept so that monitors can check that the labware does not alias it
    CALLER_ARRAYS[id(lw)] = arr
    if len(CALLER_ARRAYS) > 64:
        CALLER_ARRAYS.pop(next(iter(CALLER_ARRAYS)))
    return lw


_SUBCLASSES = {}


def _user_subclass(base):
    """A trivial user-defined subclass (users do derive their own plate / worklist types)."""
    if base not in _SUBCLASSES:
        _SUBCLASSES[base] = type("My" + base.__name__, (base,), {"__doc__": "user-defined subclass"})
    return _SUBCLASSES[base]


def build_worklist(wcfg, device=None, filepath=None):
    import robotools

    device = device or wcfg.get("device", "evo")
    cls = {"evo": robotools.EvoWorklist, "fluent": robotools.FluentWorklist, "base": robotools.BaseWorklist}[device]
    flavour = wcfg.get("flavour")
    if flavour == "deprecated_worklist" and device == "evo":
        cls = robotools.Worklist  # deprecated alias of the EVO worklist (emits a DeprecationWarning)
    elif flavour == "subclass":
        cls = _user_subclass(cls)
    if flavour == "configured_by_assignment":
        # the public attributes are set after construction (e.g. after switching the tip type)
        mv = wcfg.get("max_volume", 950)
        wl = cls(filepath, max_volume=(950 if mv != 950 else 200))
        wl.max_volume = mv
        wl.auto_split = wcfg.get("auto_split", True)
        wl.diti_mode = wcfg.get("diti_mode", False)
        return wl
    return cls(
        filepath,
        max_volume=wcfg.get("max_volume", 950),
        auto_split=wcfg.get("auto_split", True),
        diti_mode=wcfg.get("diti_mode", False),
    )


CALLER_ARRAYS = {}
SHARED_ARRAYS = {}


class Outcome:
    __slots__ = ("exc", "appended", "events", "n_before", "list_log")

    def __init__(self, exc, appended, events, n_before, list_log):
        self.exc = exc
        self.appended = appended
        self.events = events
        self.n_before = n_before
        self.list_log = list_log

    @property
    def ok(self):
        return self.exc is None


class World:
    """Real objects of one case + uniform execution of JSON-able operations."""

    def __init__(self, case, device=None, filepath=None):
        self.case = case
        self.att = attach.current()
        self.descs = {d["name"]: d for d in case["worktable"]}
        SHARED_ARRAYS.clear()
        self.lw = {d["name"]: build_labware(d) for d in case["worktable"]}
        self.device = device or case.get("worklist", {}).get("device", "evo")
        self.wl = build_worklist(case.get("worklist", {}), self.device, filepath)
        self.preamble_records = 0
        if not filepath:
            self.run_preamble()

    def run_preamble(self):
        """Records the user wrote before the operations under test (DiTi selection, comments, a wash)."""
        for op in self.case.get("worklist", {}).get("preamble", ()):
            try:
                self._dispatch(op)
            except attach.MonitorAbort:
                raise
            except Exception:
                pass
        self.preamble_records = len(self.wl)

    def exec(self, op) -> Outcome:
        att = self.att
        att.events.clear()
        att.list_log.clear()
        att.keep_events = True
        att.keep_list_log = True
        wl = self.wl
        n0 = len(wl)
        exc = None
        try:
            self._dispatch(op)
        except attach.MonitorAbort:
            raise
        except Exception as e:
            exc = e
        # only what happened to the labware of this world (the library may try an operation on a private copy
        # of a labware first; hook rules still judge such calls, the shadow models do not follow them)
        mine = {id(x) for x in self.lw.values()}
        events = [e for e in att.events if e.get("labware") is None or id(e["labware"]) in mine]
        out = Outcome(exc, list(wl[n0:]) if len(wl) >= n0 else [], events, n0, list(att.list_log))
        return out

    def _dispatch(self, op):
        k = op["op"]
        wl = self.wl
        L = self.lw
        kw = dec(op.get("kw", {})) or {}
        if k == "transfer":
            wl.transfer(
                L[op["src"]],
                dec(op["sw"]),
                L[op["dst"]],
                dec(op["dw"]),
                dec(op["vol"]),
                label=op.get("label"),
                wash_scheme=dec(op.get("wash", 1)),
                partition_by=op.get("pb", "auto"),
                **kw,
            )
        elif k == "distribute":
            wl.distribute(L[op["src"]], op["col"], L[op["dst"]], dec(op["dw"]), volume=dec(op["vol"]), **kw)
        elif k == "aspirate":
            wl.aspirate(L[op["lw"]], dec(op["wells"]), dec(op["vol"]), label=op.get("label"), **kw)
        elif k == "dispense":
            wl.dispense(
                L[op["lw"]], dec(op["wells"]), dec(op["vol"]), label=op.get("label"), compositions=dec(op.get("comps")), **kw
            )
        elif k == "add":
            L[op["lw"]].add(dec(op["wells"]), dec(op["vol"]), op.get("label"), compositions=dec(op.get("comps")))
        elif k == "remove":
            L[op["lw"]].remove(dec(op["wells"]), dec(op["vol"]), op.get("label"))
        elif k == "evo_aspirate":
            wl.evo_aspirate(
                L[op["lw"]], dec(op["wells"]), dec(op["pos"]), dec(op["tips"]), dec(op["vol"]), op.get("lc", ""),
                arm=op.get("arm", 0), label=op.get("label"),
            )
        elif k == "evo_dispense":
            wl.evo_dispense(
                L[op["lw"]], dec(op["wells"]), dec(op["pos"]), dec(op["tips"]), dec(op["vol"]), op.get("lc", ""),
                arm=op.get("arm", 0), label=op.get("label"), compositions=dec(op.get("comps")),
            )
        elif k == "set_limits":
            L[op["lw"]].min_volume = op["min"]
            L[op["lw"]].max_volume = op["max"]
        elif k == "comment":
            wl.comment(op.get("text"))
        elif k == "wash":
            wl.wash(dec(op.get("scheme", 1)))
        elif k == "flush":
            wl.flush()
        elif k == "commit":
            wl.commit()
        elif k == "decontaminate":
            wl.decontaminate()
        elif k == "set_diti":
            wl.set_diti(dec(op["index"]))
        elif k == "aspirate_well":
            wl.aspirate_well(dec(op["label"]), dec(op["position"]), dec(op["volume"]), **kw)
        elif k == "dispense_well":
            wl.dispense_well(dec(op["label"]), dec(op["position"]), dec(op["volume"]), **kw)
        elif k == "reagent_distribution":
            wl.reagent_distribution(*[dec(a) for a in op["args"]], **kw)
        else:
            raise ValueError(f"unknown op {k}")


# ---------------------------------------------------------------------------------------------
# argument shapes
# ---------------------------------------------------------------------------------------------
def shape_wells(rng, ids):
    """Present a list of well ids as list / 1-D array / 2-D array (column-major layout)."""
    n = len(ids)
    style = rng.choice(["list", "list", "array", "2d", "2d"])
    if n == 1 and rng.random() < 0.5:
        return ids[0], "scalar"
    if style == "2d" and n >= 2:
        divs = [k for k in range(1, n + 1) if n % k == 0]
        r = rng.choice(divs)
        c = n // r
        # element (i, j) of the 2-D array is flat[j*r + i]  (column-major reading gives ``ids`` back)
        nested = [[ids[j * r + i] for j in range(c)] for i in range(r)]
        return enc(np.array(nested)), f"2d:{r}x{c}"
    if style == "array":
        return enc(np.array(ids)), "array"
    if rng.random() < 0.15:
        return enc(tuple(ids)), "tuple"
    return list(ids), "list"


def narrow_scalar(rng, v, p=0.12):
    """A scalar volume as the narrowest numpy integer type that holds it (a value read from an instrument
    table or a pandas column): same number, the library must not do its sums in that width."""
    try:
        f = float(v)
    except Exception:
        return v
    if isinstance(v, dict) or not f.is_integer() or not (0 <= f < 65536) or rng.random() >= p:
        return v
    i = int(f)
    names = [n for n, hi in (("int8", 128), ("uint8", 256), ("int16", 32768), ("uint16", 65536)) if i < hi]
    return {"__npint__": [names[0] if rng.random() < 0.7 else rng.choice(names), i]}


def shape_volumes(rng, vols, like=None):
    """Present volumes as scalar (if uniform) / list / 1-D / 2-D array with the same layout."""
    n = len(vols)
    if n >= 1 and all(v == vols[0] for v in vols) and rng.random() < 0.5:
        return narrow_scalar(rng, vols[0]), "scalar"
    if like and like.startswith("2d:"):
        r, c = map(int, like[3:].split("x"))
        nested = [[vols[j * r + i] for j in range(c)] for i in range(r)]
        return enc(np.array(nested)), like
    style = rng.choice(["list", "array", "array", "tuple", "typed"])
    if style == "array":
        return enc(np.array(vols, dtype=float)), "array"
    if style == "tuple":
        return enc(tuple(vols)), "tuple"
    if style == "typed":
        # other numeric types with exactly the same values: python ints, integer / float32 arrays
        if all(float(v).is_integer() and abs(v) < 2**31 for v in vols):
            ints = [int(v) for v in vols]
            forms = [ints, enc(np.array(ints, dtype=np.int64))]
            if all(0 <= i < 60000 for i in ints):
                forms.append({"__ndu16__": ints})  # unsigned integer arrays (e.g. read from an instrument file)
            return rng.choice(forms), "ints"
        # (float32 arrays are deliberately not generated: with NumPy 2 promotion rules `python_float *
        #  numpy.float32` is evaluated in single precision, so the composition tracking inherits the
        #  precision the caller chose for the volumes - not a question the properties decide)
    return list(vols), "list"


def scribble_on_helper_results(rows, cols):
    """A caller that edits what `make_well_index_dict` / `make_well_array` gave it (mirroring a rotated plate,
    labelling a layout) must not influence anybody else who asks for the same geometry later."""
    import robotools

    try:
        d = robotools.make_well_index_dict(rows, cols)
        a = robotools.make_well_array(rows, cols)
    except Exception:
        return
    if isinstance(d, dict) and d:
        items = list(d.items())
        for (k, _), (_, v) in zip(items, reversed(items)):
            d[k] = v  # mirrored
        d.pop(items[0][0], None)
    if isinstance(a, np.ndarray) and a.size:
        a[...] = "STD"
