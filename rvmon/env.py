"""Bootstrap: source-tree selection, offline dependencies, determinism, source digest.

Every check process (parent and shard workers) calls :func:`bootstrap` before importing
robotools.  The source tree is ``$RVMON_REPO`` (default ``/repo``); it is put first on
``sys.path`` so that it wins over the editable install, and the import is verified to come from
that tree.  The guard variable ``ROBOTOOLS_VERIF`` is set for the interface's sake; robotools has
no guarded hooks - all instrumentation is attached from outside (see attach.py).
"""
from __future__ import annotations

import fcntl
import hashlib
import os
import subprocess
import sys
from pathlib import Path

VERIF = Path(__file__).resolve().parent.parent
DEPS = VERIF / ".deps"
WORK = VERIF / ".work"
WHEELS = "/opt/veriftools/wheels"
GUARD = "ROBOTOOLS_VERIF"

_state = {"done": False, "repo": None, "digest": None, "icontract": None}


def repo_root() -> Path:
    return Path(os.environ.get("RVMON_REPO", "/repo")).resolve()


def ensure_deps() -> bool:
    """Install icontract (+ jsonschema) into /verif/.deps, offline and idempotently.

    Returns True when icontract is importable afterwards.  Failure is not fatal: attach.py falls
    back to a built-in invariant decorator and the evidence says so.
    """
    marker = DEPS / "icontract" / "__init__.py"
    if not marker.exists():
        DEPS.mkdir(parents=True, exist_ok=True)
        lock = open(DEPS / ".lock", "w")
        try:
            fcntl.flock(lock, fcntl.LOCK_EX)
            if not marker.exists():
                env = dict(os.environ, PIP_NO_INDEX="1", PIP_DISABLE_PIP_VERSION_CHECK="1")
                subprocess.run(
                    [
                        sys.executable,
                        "-m",
                        "pip",
                        "install",
                        "--quiet",
                        "--no-index",
                        "--find-links",
                        WHEELS,
                        "--target",
                        str(DEPS),
                        "icontract",
                        "jsonschema",
                    ],
                    env=env,
                    stdout=subprocess.DEVNULL,
                    stderr=subprocess.DEVNULL,
                    timeout=300,
                    check=False,
                )
        finally:
            fcntl.flock(lock, fcntl.LOCK_UN)
            lock.close()
    if str(DEPS) not in sys.path:
        sys.path.append(str(DEPS))
    try:
        import icontract  # noqa: F401

        return True
    except Exception:
        return False


def source_digest(root: Path) -> str:
    h = hashlib.sha256()
    for p in sorted((root / "robotools").rglob("*.py")):
        h.update(str(p.relative_to(root)).encode())
        h.update(b"\0")
        h.update(p.read_bytes())
        h.update(b"\0")
    return "sha256:" + h.hexdigest()


def bootstrap() -> dict:
    """Select the source tree and import robotools from it.  Idempotent."""
    if _state["done"]:
        return _state
    os.environ.setdefault(GUARD, "1")
    os.environ.setdefault("PYTHONDONTWRITEBYTECODE", "1")
    sys.dont_write_bytecode = True
    root = repo_root()
    if not (root / "robotools" / "__init__.py").exists():
        raise RuntimeError(f"no robotools package under {root}")
    sys.path.insert(0, str(root))
    _state["icontract"] = ensure_deps()
    import logging
    import warnings

    warnings.simplefilter("ignore")
    logging.disable(logging.CRITICAL)
    import robotools

    got = Path(robotools.__file__).resolve()
    if root not in got.parents:
        raise RuntimeError(f"robotools imported from {got}, expected a tree under {root}")
    _state["repo"] = str(root)
    _state["digest"] = source_digest(root)
    _state["done"] = True
    return _state


def workdir(tag: str) -> Path:
    p = WORK / tag
    p.mkdir(parents=True, exist_ok=True)
    return p
