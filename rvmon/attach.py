"""Monitor attachment: everything is applied from outside, at harness start-up.

* ``Labware.add`` / ``Labware.remove`` / ``Labware.condense_log`` / ``Labware.__init__`` are wrapped
  on the class, so every caller (worklists, DilutionPlan, the harness) goes through the hook.
  The hook takes deep pre/post snapshots, evaluates the *hook-level oracle* (an exact-arithmetic
  prediction of the call from the pre-state and the arguments as written) and appends an event.
* icontract class invariants on ``Labware`` (named conditions that record and return True).
* every mutating ``list`` method of ``BaseWorklist`` is overridden to log record-list mutations
  and to call per-append observers (C03's incremental replay).
* ``spy()`` wraps module-level functions everywhere they were imported by name.
* ``sys.monitoring`` LINE events (first hit only) give reach/coverage of the repository code.
* an audit hook records file-system events below the scratch directory (C17).

Hook-level rules are *generic*; a property module lists the ones it owns in ``HOOK_RULES`` and
only those become violations of that property (the others are counted in the evidence).
"""
from __future__ import annotations

import itertools
import math
import os
import sys
from fractions import Fraction

import numpy as np


class MonitorAbort(Exception):
    """Raised by a property module to stop the current case early (never into robotools)."""


# ---------------------------------------------------------------------------------------------
# helpers shared with the oracles
# ---------------------------------------------------------------------------------------------
def to_nested(x):
    if isinstance(x, np.ndarray):
        return x.tolist()
    if isinstance(x, (list, tuple)):
        return [to_nested(e) for e in x]
    if isinstance(x, np.generic):
        return x.item()
    return x


def shape_of(x):
    s = []
    while isinstance(x, list):
        s.append(len(x))
        if not x:
            break
        x = x[0]
    return tuple(s)


def flat_f(x):
    """Column-major (first index fastest) flattening of a nested list / array / scalar.

    Independent of numpy's ``flatten('F')``: used by the oracles to pair wells and volumes.
    """
    n = to_nested(x)
    if not isinstance(n, list):
        return [n]
    shape = shape_of(n)
    if len(shape) == 1:
        return list(n)
    out = []
    for ridx in itertools.product(*[range(s) for s in reversed(shape)]):
        e = n
        for i in ridx[::-1]:
            e = e[i]
        out.append(e)
    return out


def fr(x) -> Fraction:
    """Exact rational value of a finite python/numpy number."""
    if isinstance(x, Fraction):
        return x
    if isinstance(x, (int, np.integer)):
        return Fraction(int(x))
    return Fraction(float(x))


def near(a: float, exact: Fraction, scale=None, rel=1e-9, abs_=1e-12) -> bool:
    """|a - exact| <= rel*scale + abs  (the tolerance policy of DESIGN.md 1.5, rule 3)."""
    if not math.isfinite(a):
        return False
    sc = max(abs(float(exact)), abs(a), float(scale) if scale is not None else 0.0)
    return abs(Fraction(a) - exact) <= Fraction(rel) * Fraction(sc) + Fraction(abs_)


ROWS = "ABCDEFGHIJKLMNOPQRSTUVWXYZ"


def real_index(desc_or_lw, well: str):
    """(row, column) of the real well addressed by a well id, from geometry only.

    Works on a worktable description dict or on anything with n_rows/n_columns/virtual_rows
    attributes; returns None if the id does not exist in the geometry.
    """
    if isinstance(desc_or_lw, dict):
        vr = desc_or_lw.get("virtual_rows")
        rows = desc_or_lw.get("rows", 1)
        cols = desc_or_lw["columns"]
    else:
        # public attributes only: the monitors must survive refactorings of private state
        vr = desc_or_lw.virtual_rows
        rows = 1 if vr is not None else desc_or_lw.n_rows
        cols = desc_or_lw.n_columns
    if not isinstance(well, str) or len(well) < 2:
        return None
    letter, digits = well[0], well[1:]
    if letter not in ROWS or not digits.isdigit() or len(digits) < 2:
        return None
    r = ROWS.index(letter)
    c = int(digits) - 1
    if len(digits) > 2 and digits[0] == "0":
        return None
    if c < 0 or c >= cols:
        return None
    if vr is not None:
        if r >= vr:
            return None
        return (0, c)
    if r >= rows:
        return None
    return (r, c)


# ---------------------------------------------------------------------------------------------
# the attachment object
# ---------------------------------------------------------------------------------------------
class Attachment:
    def __init__(self, ctx, what):
        self.ctx = ctx
        self.what = set(what)
        self.hook_violations = []  # (rule, detail)
        self.hook_counts = {}
        self.events = []  # labware events of the current API call (cleared by the runner)
        self.keep_events = False
        self.list_log = []  # (id(worklist), method, payload)
        self.keep_list_log = False
        self.append_observers = []  # callables (worklist, record)
        self.spies = {}
        self.spy_log = {}
        self.keep_spy_log = False
        self.fs_events = []
        self.fs_prefix = None
        self.lines = set()
        self.icontract = False
        self.depth = 0  # nesting depth of hooked labware calls

    # -- hook verdicts -------------------------------------------------------------------------
    def hv(self, rule, ok, detail=None):
        self.hook_counts[rule] = self.hook_counts.get(rule, 0) + 1
        if not ok:
            if len(self.hook_violations) < 200:
                self.hook_violations.append((rule, detail() if callable(detail) else detail))

    def drain(self, ctx):
        """Move hook verdicts into the context (owned rules become violations)."""
        mod_rules = getattr(sys.modules.get(f"rvmon.props.{ctx.prop}"), "HOOK_RULES", ())
        classify = getattr(sys.modules.get(f"rvmon.props.{ctx.prop}"), "classify_hook", None)
        for rule, n in self.hook_counts.items():
            ctx.counters["rule:hook." + rule] = ctx.counters.get("rule:hook." + rule, 0) + n
        self.hook_counts = {}
        for rule, detail in self.hook_violations:
            if rule in mod_rules or "*" in mod_rules:
                key = classify(rule, detail) if classify else None
                ctx.violation("hook." + rule, detail, key=key)
            else:
                ctx.count("foreign_hook_report:" + rule)
        self.hook_violations = []
        self.events.clear()
        self.list_log.clear()
        for v in self.spy_log.values():
            v.clear()

    def summary(self):
        cov = {}
        root = None
        try:
            from . import env

            root = env._state["repo"]
        except Exception:
            pass
        for fn, ln in self.lines:
            rel = os.path.relpath(fn, root) if root else fn
            cov[rel] = cov.get(rel, 0) + 1
        return {
            "icontract_invariants": int(self.icontract),
            "spy_calls": {k: v for k, v in self.spies.items()},
            "lines_executed_per_file": cov,
        }


_ATT = None


def current() -> Attachment:
    return _ATT


def install(ctx, what=("labware", "worklist")) -> Attachment:
    global _ATT
    att = Attachment(ctx, what)
    _ATT = att
    import robotools  # noqa: F401

    if "labware" in att.what:
        _attach_labware(att)
    if "worklist" in att.what:
        _attach_worklist(att)
    if "coverage" in att.what or True:
        _attach_coverage(att)
    if "audit" in att.what:
        _attach_audit(att)
    return att


# ---------------------------------------------------------------------------------------------
# Labware hooks
# ---------------------------------------------------------------------------------------------
def snapshot(lw):
    vols = np.array(lw.volumes, dtype=float, copy=True)
    comp = None
    c = lw.composition
    if c is not None:
        comp = {k: np.array(v, dtype=float, copy=True) for k, v in c.items()}
    return vols, comp


def _predict(lw, pre, wells, volumes, sign):
    """Exact prediction of an add (sign=+1) / remove (sign=-1) call.

    Returns (status, k, expected_volumes) where status is
      'ok'      every element is inside the limits,
      'limit'   the k-th element (column-major order) crosses a limit: the call must raise,
      'either'  the k-th element is within the either-band of the limit *and* float arithmetic
                is inexact there: both outcomes are accepted,
      'badarg'  negative / NaN volume or mismatching lengths: the call must not be accepted,
      'badid'   the k-th well id does not exist in the geometry,
      'unknown' arguments outside what the oracle models.
    ``expected_volumes`` is the exact state after the accepted prefix.
    """
    try:
        w = flat_f(wells)
        v = flat_f(volumes)
    except Exception:
        return "unknown", None, None
    if len(v) == 1 and len(w) != 1:
        v = v * len(w)
    if len(v) != len(w):
        return "badarg", None, None
    vf_list = []
    for x in v:
        if isinstance(x, (str, bytes, bool)) or x is None:
            return "unknown", None, None
        try:
            xf = float(x)
        except Exception:
            return "unknown", None, None
        if math.isnan(xf) or xf < 0:
            return "badarg", None, None
        vf_list.append(xf)
    rows, cols = pre.shape
    if not np.all(np.isfinite(pre)):
        return "unknown", None, None
    exp = {(r, c): fr(pre[r, c]) for r in range(rows) for c in range(cols)}
    sim = {(r, c): float(pre[r, c]) for r in range(rows) for c in range(cols)}
    try:
        mxf, mnf = float(lw.max_volume), float(lw.min_volume)
    except Exception:
        return "unknown", None, None
    if math.isnan(mxf) or math.isnan(mnf):
        return "unknown", None, None
    soft = False
    for k, (well, vf) in enumerate(zip(w, vf_list)):
        idx = real_index(lw, well)
        if idx is None:
            return "badid", k, exp
        if math.isinf(vf):
            if sign > 0 and math.isinf(mxf):
                return "unknown", k, exp
            return "limit", k, exp
        new = exp[idx] + sign * fr(vf)
        fsim = sim[idx] + vf if sign > 0 else sim[idx] - vf
        float_exact = math.isfinite(fsim) and Fraction(fsim) == new
        if sign > 0:
            if math.isinf(mxf):
                margin = Fraction(-1)
                band = Fraction(0)
            else:
                margin = new - fr(mxf)
                band = Fraction(1e-9) * max(abs(fr(mxf)), abs(new), 1)
        else:
            margin = fr(mnf) - new
            band = Fraction(1e-9) * max(abs(fr(mnf)), abs(new), abs(exp[idx]), 1)
        if float_exact:
            if margin > 0:
                return ("either" if soft else "limit"), k, exp
        else:
            if margin > band:
                return ("either" if soft else "limit"), k, exp
            if margin >= -band:
                # inside the either-band with inexact float arithmetic: both outcomes are legitimate.
                # Follow the float simulation; from here on nothing strict is demanded any more.
                rejected = (fsim > mxf) if sign > 0 else (fsim < mnf)
                if rejected:
                    return "either", k, exp
                soft = True
        exp[idx] = new
        sim[idx] = fsim
    return ("ok_soft" if soft else "ok"), None, exp


def _attach_labware(att: Attachment):
    from robotools.liquidhandling import labware as lwmod
    from robotools.liquidhandling.exceptions import (
        VolumeOverflowError,
        VolumeUnderflowError,
        VolumeViolationException,
    )

    Labware = lwmod.Labware
    if getattr(Labware, "_rvmon_wrapped", False):
        # re-attachment in the same process (replay after run): just rebind the attachment
        return

    orig_add = Labware.add
    orig_remove = Labware.remove
    orig_condense = Labware.condense_log

    def hooked(kind, orig, sign):
        def wrapper(self, wells, volumes, label=None, *a, **kw):
            A = _ATT
            if A is None:
                return orig(self, wells, volumes, label, *a, **kw)
            try:
                pre, pre_comp = snapshot(self)
                hist_len = len(self.history)
            except Exception:
                return orig(self, wells, volumes, label, *a, **kw)
            exc = None
            A.depth += 1
            try:
                res = orig(self, wells, volumes, label, *a, **kw)
            except BaseException as e:  # observed, re-raised unchanged
                exc = e
            finally:
                A.depth -= 1
            try:
                _judge(A, self, kind, sign, wells, volumes, label, a, kw, pre, pre_comp, hist_len, exc)
            except Exception as e:  # the monitor must never disturb the program
                A.hv("monitor_error", False, lambda: {"error": repr(e), "kind": kind})
            if exc is not None:
                raise exc
            return res

        wrapper.__name__ = orig.__name__
        wrapper.__doc__ = orig.__doc__
        wrapper.__wrapped__ = orig
        return wrapper

    def _judge(A, lw, kind, sign, wells, volumes, label, a, kw, pre, pre_comp, hist_len, exc):
        post, post_comp = snapshot(lw)
        status, k, exp = _predict(lw, pre, wells, volumes, sign)
        det = lambda extra=None: dict(
            {
                "labware": lw.name,
                "call": kind,
                "wells": to_nested(wells),
                "volumes": to_nested(volumes),
                "min_volume": lw.min_volume,
                "max_volume": lw.max_volume,
                "pre": pre.tolist(),
                "post": post.tolist(),
                "raised": repr(exc) if exc is not None else None,
                "predicted": status,
                "k": k,
            },
            **(extra or {}),
        )
        # --- state bounds, exact, on the observable post-state (rule 1 of the tolerance policy)
        finite = bool(np.all(np.isfinite(post)))
        A.hv("volumes_finite", finite, det)
        A.hv("volume_nonnegative", bool(np.all(post[np.isfinite(post)] >= 0)), det)
        try:
            flat_w = flat_f(wells)
            flat_v = flat_f(volumes)
            if len(flat_v) == 1:
                flat_v = flat_v * len(flat_w)
        except Exception:
            flat_w, flat_v = [], []
        touched = []
        for w_, v_ in zip(flat_w, flat_v):
            idx = real_index(lw, w_)
            if idx is not None:
                touched.append((idx, v_))
        if exc is None:
            if sign > 0:
                for idx, v_ in touched:
                    if not (isinstance(v_, (int, float, np.number)) and float(v_) > 0):
                        continue
                    if post[idx] > lw.max_volume:
                        A.hv("max_after_add", False, det)
                        break
                else:
                    A.hv("max_after_add", True)
            else:
                for idx, v_ in touched:
                    if not (isinstance(v_, (int, float, np.number)) and float(v_) > 0):
                        continue
                    if post[idx] < lw.min_volume:
                        A.hv("min_after_remove", False, det)
                        break
                else:
                    A.hv("min_after_remove", True)
        # --- outcome vs exact prediction
        is_vv = isinstance(exc, VolumeViolationException)
        want = VolumeOverflowError if sign > 0 else VolumeUnderflowError
        if status == "ok":
            A.hv("accept_when_within_limits", exc is None or not is_vv, det)
            if exc is None:
                ok = True
                for (r, c), e in exp.items():
                    if not near(post[r, c], e, scale=max(abs(float(e)), abs(pre[r, c]))):
                        ok = False
                        break
                A.hv("ledger_exact", ok, lambda: det({"expected": {f"{r},{c}": str(e) for (r, c), e in exp.items()}}))
        elif status == "limit":
            A.hv("reject_when_beyond_limit", exc is not None, det)
            if exc is not None:
                A.hv("limit_exception_type", isinstance(exc, want), det)
        elif status == "ok_soft":
            if exc is None:
                ok = all(near(post[r, c], e, scale=max(abs(float(e)), abs(pre[r, c]))) for (r, c), e in exp.items())
                A.hv("ledger_exact", ok, det)
        elif status == "either":
            A.count_either = getattr(A, "count_either", 0) + 1
            if exc is not None:
                A.hv("limit_exception_type", isinstance(exc, want) or not is_vv, det)
        elif status == "badarg":
            A.hv("reject_bad_argument", exc is not None, det)
        if exc is not None and status == "limit" and exp is not None and k is not None:
            # the offending well is unchanged w.r.t. the state after the accepted prefix, and the
            # whole state is either "nothing applied" or "the prefix applied" (both legitimate)
            idx = real_index(lw, flat_f(wells)[k])
            if idx is not None:
                okk = near(post[idx], exp[idx], scale=abs(pre[idx])) or near(post[idx], fr(pre[idx]))
                A.hv("offender_unchanged", okk, det)
            pref = all(near(post[r, c], e, scale=abs(pre[r, c])) for (r, c), e in exp.items())
            none_ = bool(np.array_equal(post, pre))
            A.hv("rejected_call_prefix_or_nothing", pref or none_, det)
        if exc is not None and status == "ok" and is_vv:
            pass  # already reported by accept_when_within_limits
        # --- frame condition: unaddressed wells unchanged (always)
        mask = np.ones(pre.shape, dtype=bool)
        for idx, _ in touched:
            mask[idx] = False
        A.hv("unaddressed_unchanged", bool(np.array_equal(post[mask], pre[mask], equal_nan=True)), det)
        # --- remove never changes composition
        if sign < 0 and pre_comp is not None and post_comp is not None:
            same = set(pre_comp) == set(post_comp) and all(
                np.array_equal(pre_comp[k_], post_comp[k_], equal_nan=True) for k_ in pre_comp
            )
            A.hv("remove_keeps_composition", same, det)
        # --- composition arrays well-formed
        if post_comp is not None:
            okc = True
            for name, arr in post_comp.items():
                if arr.shape != post.shape:
                    okc = False
                    break
            A.hv("composition_shape", okc, det)
            okf = True
            for name, arr in post_comp.items():
                if arr.shape == post.shape and not bool(
                    np.all(np.isfinite(arr)) and np.all(arr >= 0) and np.all(arr <= 1 + 1e-9)
                ):
                    okf = False
                    break
            A.hv(
                "fractions_finite_in_unit_interval",
                okf,
                lambda: det({"composition": {k_: v_.tolist() for k_, v_ in post_comp.items()}}),
            )
        # --- history: one entry per accepted direct call, newest == current volumes
        if exc is None:
            h_now = lw.history
            A.hv("one_history_entry_per_call", len(h_now) == hist_len + 1, det)
            A.hv(
                "newest_entry_is_current",
                bool(len(h_now) > 0 and np.array_equal(np.asarray(h_now[-1][1]), post, equal_nan=True)),
                det,
            )
        if A.keep_events:
            A.events.append(
                {
                    "kind": kind,
                    "labware": lw,
                    "name": lw.name,
                    "wells": flat_w,
                    "volumes": flat_v,
                    "label": label,
                    "pre": pre,
                    "post": post,
                    "pre_comp": pre_comp,
                    "post_comp": post_comp,
                    "exc": exc,
                    "status": status,
                    "k": k,
                    "depth": A.depth,
                    "compositions": kw.get("compositions", a[0] if a else None),
                }
            )

    Labware.add = hooked("add", orig_add, +1)
    Labware.remove = hooked("remove", orig_remove, -1)

    def condense_wrapper(self, *a, **kw):
        A = _ATT
        if A is not None and A.keep_events:
            n = a[0] if a else kw.get("n")
            label = a[1] if len(a) > 1 else kw.get("label", "last")
            A.events.append({"kind": "condense", "labware": self, "name": self.name, "n": n, "label": label})
        return orig_condense(self, *a, **kw)

    condense_wrapper.__wrapped__ = orig_condense
    Labware.condense_log = condense_wrapper
    Labware._rvmon_wrapped = True

    # ---- icontract class invariants (named conditions, record and return True) ----------------
    try:
        import icontract

        class InvariantBroken(Exception):
            pass

        def volumes_within_physical_bounds(self) -> bool:
            A = _ATT
            if A is not None and A.depth == 0:
                v = np.asarray(self.volumes)
                ok = bool(np.all(v >= 0) and np.all(v <= self.max_volume))
                A.hv(
                    "inv_volume_bounds",
                    ok,
                    lambda: {"labware": self.name, "volumes": v.tolist(), "max_volume": self.max_volume},
                )
            return True

        def parallel_structures_agree(self) -> bool:
            A = _ATT
            if A is not None and A.depth == 0:
                h = self.history
                shp = np.shape(self.volumes)
                ok = len(h) >= 1 and all(np.shape(e[1]) == shp for e in h[-3:])
                c = self.composition
                if c is not None:
                    ok = ok and all(np.shape(a) == shp for a in c.values())
                A.hv("inv_parallel_structures", bool(ok), lambda: {"labware": self.name})
            return True

        icontract.invariant(volumes_within_physical_bounds, error=InvariantBroken)(Labware)
        icontract.invariant(parallel_structures_agree, error=InvariantBroken)(Labware)
        att.icontract = True
    except Exception as e:  # fall back: the hook-level rules above cover the same bounds
        att.icontract = False
        att.icontract_error = repr(e)


# ---------------------------------------------------------------------------------------------
# Worklist record-list hooks
# ---------------------------------------------------------------------------------------------
_MUTATORS = (
    "append",
    "extend",
    "insert",
    "__setitem__",
    "__delitem__",
    "pop",
    "remove",
    "clear",
    "sort",
    "reverse",
    "__iadd__",
    "__imul__",
)


def _attach_worklist(att: Attachment):
    from robotools.worklists.base import BaseWorklist

    if getattr(BaseWorklist, "_rvmon_wrapped", False):
        return

    def make(name):
        base = getattr(list, name)

        def method(self, *a, **kw):
            A = _ATT
            res = base(self, *a, **kw)
            if A is not None:
                if A.keep_list_log:
                    A.list_log.append((id(self), name, a))
                if name == "append":
                    for obs in A.append_observers:
                        try:
                            obs(self, a[0])
                        except MonitorAbort:
                            raise
                        except Exception as e:
                            A.hv("monitor_error", False, lambda: {"error": repr(e), "kind": "append_observer"})
                elif name != "clear" or len(a) or True:
                    if name not in ("append",) and A.keep_list_log:
                        pass
            return res

        method.__name__ = name
        return method

    for name in _MUTATORS:
        setattr(BaseWorklist, name, make(name))
    BaseWorklist._rvmon_wrapped = True


# ---------------------------------------------------------------------------------------------
# spies on module-level functions
# ---------------------------------------------------------------------------------------------
def spy(qualname: str, keep=True):
    """Wrap ``module.function`` everywhere in robotools' modules where that object is bound."""
    A = _ATT
    modname, fname = qualname.rsplit(".", 1)
    import importlib

    mod = importlib.import_module(modname)
    orig = getattr(mod, fname)
    if getattr(orig, "_rvmon_spy", None):
        A.spies.setdefault(qualname, 0)
        A.spy_log.setdefault(qualname, [])
        return
    A.spies[qualname] = 0
    A.spy_log[qualname] = []

    def wrapper(*a, **kw):
        B = _ATT
        exc = None
        try:
            res = orig(*a, **kw)
        except BaseException as e:
            exc = e
            res = None
        if B is not None:
            B.spies[qualname] = B.spies.get(qualname, 0) + 1
            if B.keep_spy_log and len(B.spy_log.setdefault(qualname, [])) < 100000:
                B.spy_log[qualname].append((a, kw, res, exc))
        if exc is not None:
            raise exc
        return res

    wrapper._rvmon_spy = qualname
    wrapper.__wrapped__ = orig
    wrapper.__name__ = getattr(orig, "__name__", fname)
    for m in list(sys.modules.values()):
        if m is None or not getattr(m, "__name__", "").startswith("robotools"):
            continue
        for k, v in list(vars(m).items()):
            if v is orig:
                setattr(m, k, wrapper)


# ---------------------------------------------------------------------------------------------
# coverage / reach
# ---------------------------------------------------------------------------------------------
def _attach_coverage(att: Attachment):
    mon = getattr(sys, "monitoring", None)
    if mon is None:
        return
    from . import env

    root = env._state.get("repo") or ""
    prefix = os.path.join(root, "robotools") + os.sep
    tool = mon.COVERAGE_ID
    try:
        mon.use_tool_id(tool, "rvmon")
    except Exception:
        return

    def on_line(code, line):
        fn = code.co_filename
        if fn.startswith(prefix) and "/test_" not in fn:
            A = _ATT
            if A is not None:
                A.lines.add((fn, line))
        return mon.DISABLE

    mon.register_callback(tool, mon.events.LINE, on_line)
    mon.set_events(tool, mon.events.LINE)


# ---------------------------------------------------------------------------------------------
# audit hook (file system events below a prefix)
# ---------------------------------------------------------------------------------------------
_AUDIT_INSTALLED = False


def _attach_audit(att: Attachment):
    global _AUDIT_INSTALLED
    if _AUDIT_INSTALLED:
        return
    _AUDIT_INSTALLED = True

    def hook(event, args):
        A = _ATT
        if A is None or A.fs_prefix is None:
            return
        if event in ("open", "os.remove", "os.rename", "os.truncate", "os.mkdir", "os.rmdir", "os.chmod"):
            try:
                path = os.fspath(args[0]) if args and args[0] is not None else None
                if isinstance(path, bytes):
                    path = path.decode("utf-8", "replace")
            except TypeError:
                path = None
            if isinstance(path, str) and path.startswith(A.fs_prefix):
                mode = args[1] if event == "open" and len(args) > 1 else None
                flags = args[2] if event == "open" and len(args) > 2 else None
                A.fs_events.append((event, path, mode, flags))

    sys.addaudithook(hook)
