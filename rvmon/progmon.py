"""Program-level monitors shared by C01 / C03 / C16 ...: feeding records to the independent
interpreter, per-operation addressing checks, three-way state comparison."""
from __future__ import annotations

from collections import defaultdict
from fractions import Fraction

import numpy as np

from . import gwl
from .attach import ROWS, flat_f, fr, near, real_index
from .core import dec, enc
from .world import well_id


def pos_of(desc, device, well):
    """Oracle: device-specific position number of a well id (closed formulas of C08)."""
    idx = real_index(desc, well)
    if idx is None:
        return None
    r = ROWS.index(well[0])
    c = int(well[1:]) - 1
    if desc["kind"] == "trough":
        if device == "fluent":
            return 1 + c
        return 1 + c * desc["virtual_rows"] + r
    return 1 + c * desc["rows"] + r


def triples_of(op):
    """(source ids, destination ids, volumes) named by a transfer-like op, read column-major
    from the arguments as written, singletons broadcast."""
    s = flat_f(dec(op["sw"]))
    d = flat_f(dec(op["dw"]))
    v = [float(x) for x in flat_f(dec(op["vol"]))]
    n = max(len(s), len(d), len(v))
    if len(s) == 1:
        s = s * n
    if len(d) == 1:
        d = d * n
    if len(v) == 1:
        v = v * n
    return s, d, v


def k1_mechanism(case_device, sdesc, col, rec):
    """Finding K1: Fluent distribute emits the EVO numbering of the trough column as source range."""
    if case_device != "fluent" or sdesc["kind"] != "trough":
        return False
    vr = sdesc["virtual_rows"]
    if vr <= 1:
        return False
    return rec.f["src_start"] == 1 + vr * col and rec.f["src_end"] == vr * (col + 1)


class RecordFeeder:
    """Feeds appended records to an Interp; grammar / replay errors become rule evaluations."""

    def __init__(self, ctx, interp, prefix):
        self.ctx = ctx
        self.interp = interp
        self.prefix = prefix
        self.failed = False

    def feed(self, records, op=None, fix=None):
        out = []
        for raw in records:
            try:
                rec = gwl.parse(raw)
            except gwl.GrammarError as e:
                self.ctx.check(self.prefix + ".record_parses", False, {"record": raw, "error": str(e), "op": enc(op)})
                self.failed = True
                continue
            self.ctx.check(self.prefix + ".record_parses", True)
            if fix is not None:
                rec = fix(rec)
            try:
                res = self.interp.apply(rec)
                self.ctx.check(self.prefix + ".record_executable", True)
            except gwl.ReplayError as e:
                self.ctx.check(
                    self.prefix + ".record_executable", False, {"record": raw, "error": str(e), "op": enc(op)}
                )
                self.failed = True
                res = None
            out.append((rec, res))
        return out


def addressing_transfer(ctx, prefix, case, op, fed, sname, dname):
    """Every A/D record of a transfer-like op addresses the named rack and device position, and the
    aggregated record volumes per (rack, position) equal the requested ones."""
    descs = {d["name"]: d for d in case["worktable"]}
    dev = case["worklist"]["device"]
    s, d, v = triples_of(op)
    expA, expD = defaultdict(Fraction), defaultdict(Fraction)
    for si, di, vi in zip(s, d, v):
        if vi > 0:
            expA[(sname, pos_of(descs[sname], dev, si))] += fr(vi)
            expD[(dname, pos_of(descs[dname], dev, di))] += fr(vi)
    obsA, obsD, nA, nD = defaultdict(Fraction), defaultdict(Fraction), defaultdict(int), defaultdict(int)
    for rec, _ in fed:
        if rec.type == "A":
            obsA[(rec.f["label"], rec.f["position"])] += rec.f["volume"]
            nA[(rec.f["label"], rec.f["position"])] += 1
        elif rec.type == "D":
            obsD[(rec.f["label"], rec.f["position"])] += rec.f["volume"]
            nD[(rec.f["label"], rec.f["position"])] += 1
    for what, exp, obs, n in (("aspirate", expA, obsA, nA), ("dispense", expD, obsD, nD)):
        # records with volume 0.00 for tiny requested volumes are legitimate roundings
        keys_ok = {k for k, x in obs.items()} <= set(exp) and all(
            k in obs or x < Fraction(1, 200) for k, x in exp.items()
        )
        det = lambda: {
            "op": enc(op),
            "expected": {f"{k[0]}#{k[1]}": float(x) for k, x in exp.items()},
            "observed": {f"{k[0]}#{k[1]}": float(x) for k, x in obs.items()},
        }
        ctx.check(f"{prefix}.{what}_records_address_named_wells", keys_ok, det)
        if keys_ok:
            ok = all(abs(obs.get(k, 0) - x) <= Fraction(1, 200) * max(1, n[k]) + Fraction(1e-9) * x for k, x in exp.items())
            ctx.check(f"{prefix}.{what}_record_volumes_match_request", ok, det)


def compare_state(ctx, prefix, case, world, interp, grid, op=None, opi=None):
    """Tracking (robotools) vs record-level interpreter: volumes of every well, composition of every
    untainted non-empty well."""
    for name, lw in world.lw.items():
        rack = interp.racks[name]
        vols = np.array(lw.volumes, dtype=float)
        comp = lw.composition
        for (r, c), w in rack.wells.items():
            tv = float(vols[r, c])
            tol = Fraction(1, 200) * w.touched + Fraction(1e-9) * max(abs(w.vol), 1)
            okv = np.isfinite(tv) and abs(Fraction(tv) - w.vol) <= tol
            ctx.check(
                prefix + ".volume_agreement",
                okv,
                lambda: {
                    "after_op": opi,
                    "op": enc(op),
                    "labware": name,
                    "well": [r, c],
                    "replayed": float(w.vol),
                    "tracked": tv,
                    "records_touching": w.touched,
                },
            )
            if w.tainted or w.vol <= Fraction(1, 100) or comp is None or not okv:
                continue
            tracked = {k: float(a[r, c]) for k, a in comp.items() if a.shape == vols.shape and a[r, c] > 0}
            exact = {k: a / w.vol for k, a in w.amounts.items() if a > 0}
            if grid:
                ok = True
                for k in set(tracked) | set(exact):
                    if not near(tracked.get(k, 0.0), exact.get(k, Fraction(0)), scale=1.0, rel=1e-7, abs_=1e-9):
                        ok = False
                        break
                rule = prefix + ".composition_agreement"
                ctx.count("composition_comparisons_grid")
            else:
                # records carry volumes rounded to 0.01: a component whose amount is within the
                # rounding slack of the records that touched the well may legitimately be missing
                slack = 0.01 * (w.touched + 1)
                ok = all(
                    tracked.get(k, 0.0) > 0 for k, f in exact.items() if f >= Fraction(1, 20) and float(f * w.vol) > slack
                ) and all(exact.get(k, 0) > 0 for k, f in tracked.items() if f >= 0.05 and f * tv > slack)
                rule = prefix + ".composition_support_agreement"
            ctx.check(
                rule,
                ok,
                lambda: {
                    "after_op": opi,
                    "op": enc(op),
                    "labware": name,
                    "well": [r, c],
                    "replayed": {k: float(f) for k, f in exact.items()},
                    "tracked": tracked,
                },
            )


def interp_fractions(interp, name, desc, well):
    """Composition (floats) of a well according to the interpreter, None when unknown."""
    idx = real_index(desc, well)
    w = interp.racks[name].wells[idx]
    if w.tainted or w.vol <= 0:
        return None
    return {k: float(a / w.vol) for k, a in w.amounts.items() if a > 0}
