"""pytest plugin: runs the repository's own tests with the monitors attached (DESIGN.md 1.6, step 2).

usage:  cd /repo && PYTHONPATH=/verif /venv/bin/python -m pytest -p rvmon.pytest_plugin -q -p no:cacheprovider
A monitor that fires here is either too strict or has found something the tests do not assert.
"""
import collections

from rvmon import attach, core, env

_state = {}


def pytest_configure(config):
    env.bootstrap()
    ctx = core.Ctx("TESTS", "quick", 0)
    _state["att"] = attach.install(ctx, ("labware", "worklist"))
    _state["seen"] = collections.Counter()
    _state["viol"] = []


def pytest_runtest_teardown(item, nextitem):
    att = _state["att"]
    for rule, n in att.hook_counts.items():
        _state["seen"][rule] += n
    att.hook_counts = {}
    for rule, detail in att.hook_violations:
        _state["viol"].append((item.nodeid, rule, detail))
    att.hook_violations = []
    att.events.clear()
    att.list_log.clear()


def pytest_terminal_summary(terminalreporter):
    tr = terminalreporter
    tr.write_line("")
    tr.write_line("rvmon: hook rule evaluations during the test suite: " + ", ".join(f"{k}={v}" for k, v in sorted(_state["seen"].items())))
    tr.write_line(f"rvmon: {len(_state['viol'])} hook reports")
    for nodeid, rule, detail in _state["viol"][:40]:
        d = {k: detail[k] for k in ("call", "wells", "volumes", "raised", "predicted") if isinstance(detail, dict) and k in detail}
        tr.write_line(f"  {rule} in {nodeid}: {d}")
