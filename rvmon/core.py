"""Check framework: shard context, counters, violations, findings, evidence, orchestration.

A property module (rvmon/props/Cnn.py) provides

    ID, TITLE, LEVEL, RULE, ASSUMPTIONS, TECHNIQUE
    def n_cases(tier) -> int                       # number of generated cases (deterministic)
    def gen_case(rng, tier, index) -> dict         # JSON-able case description (inputs only)
    def run_case(ctx, case) -> None                # execute against the real code + monitors
    def extra(ctx) -> None          (optional)     # exhaustive / enumerated parts, run by shard 0..n
    def gates(stats, tier) -> list[str]            # reasons why the run would be inconclusive
    def classify(v) -> str | None   (optional)     # finding key (mechanism) of a violation

A case is executed by ``run_case`` only; replay of a witness re-executes exactly that function
on the stored case, so witness == input of the deciding monitor.
"""
from __future__ import annotations

import hashlib
import importlib
import json
import math
import os
import pickle
import random
import subprocess
import sys
import time
import traceback
from fractions import Fraction
from pathlib import Path

from . import env

VERIF = env.VERIF
MAX_STORED_PER_SIGNATURE = 3


# ---------------------------------------------------------------------------------------------
# JSON encoding of cases (numpy arrays, Tip members, non-finite floats, Fractions, tuples)
# ---------------------------------------------------------------------------------------------
def enc(o):
    """Encode a python/numpy object into a JSON-able structure (round-trip with ``dec``)."""
    import numpy as np

    if o is None or isinstance(o, (bool, str)):
        return o
    if isinstance(o, Fraction):
        return {"__frac__": [str(o.numerator), str(o.denominator)]}
    try:
        from robotools import Tip

        if isinstance(o, Tip):
            return {"__tip__": o.name}
    except Exception:  # pragma: no cover
        pass
    if isinstance(o, (int, np.integer)) and not isinstance(o, bool):
        return int(o)
    if isinstance(o, (float, np.floating)):
        f = float(o)
        if math.isnan(f) or math.isinf(f):
            return {"__f__": repr(f)}
        return f
    if isinstance(o, np.ndarray):
        if o.dtype == np.float32:
            return {"__nd32__": enc(o.astype(float).tolist())}
        if o.dtype == np.uint16:
            return {"__ndu16__": o.tolist()}
        if o.dtype.kind in "iu":
            return {"__ndint__": enc(o.tolist())}
        return {"__nd__": enc(o.tolist()), "dtype": "str" if o.dtype.kind in "US" else "num"}
    if isinstance(o, tuple):
        return {"__tuple__": [enc(x) for x in o]}
    if isinstance(o, (set, frozenset)):
        return {"__set__": [enc(x) for x in sorted(o, key=repr)]}
    if isinstance(o, (list,)):
        return [enc(x) for x in o]
    if isinstance(o, dict):
        return {"__dict__": [[enc(k), enc(v)] for k, v in o.items()]} if any(
            not isinstance(k, str) for k in o
        ) else {k: enc(v) for k, v in o.items()}
    if isinstance(o, Path):
        return {"__path__": str(o)}
    return {"__repr__": repr(o)}


def dec(o):
    import numpy as np

    if isinstance(o, list):
        return [dec(x) for x in o]
    if isinstance(o, dict):
        if "__frac__" in o:
            return Fraction(int(o["__frac__"][0]), int(o["__frac__"][1]))
        if "__tip__" in o:
            from robotools import Tip

            return Tip[o["__tip__"]]
        if "__f__" in o:
            return float(o["__f__"])
        if "__nd__" in o:
            return np.array(dec(o["__nd__"]))
        if "__nd32__" in o:
            return np.array(dec(o["__nd32__"]), dtype=np.float32)
        if "__npint__" in o:
            return getattr(np, o["__npint__"][0])(o["__npint__"][1])
        if "__npscalar__" in o:
            return getattr(np, o["__npscalar__"][0])(o["__npscalar__"][1])
        if "__ndu16__" in o:
            return np.array(o["__ndu16__"], dtype=np.uint16)
        if "__ndint__" in o:
            return np.array(dec(o["__ndint__"]), dtype=np.int64)
        if "__tuple__" in o:
            return tuple(dec(x) for x in o["__tuple__"])
        if "__set__" in o:
            return set(dec(x) for x in o["__set__"])
        if "__dict__" in o:
            return {dec(k): dec(v) for k, v in o["__dict__"]}
        if "__path__" in o:
            return Path(o["__path__"])
        if "__repr__" in o:
            return o["__repr__"]
        return {k: dec(v) for k, v in o.items()}
    return o


def canon(o) -> str:
    return json.dumps(enc(o), sort_keys=True, separators=(",", ":"), default=repr)


def case_hash(o) -> int:
    return int.from_bytes(hashlib.blake2b(canon(o).encode(), digest_size=8).digest(), "big")


# ---------------------------------------------------------------------------------------------
# Shard context
# ---------------------------------------------------------------------------------------------
class Ctx:
    """What a property module sees while running: counters, features, cases, violations."""

    def __init__(self, prop: str, tier: str, seed: int, shard: int = 0, nshards: int = 1):
        self.prop = prop
        self.tier = tier
        self.seed = seed
        self.shard = shard
        self.nshards = nshards
        self.counters: dict = {}
        self.features: dict = {}
        self.evaluations = 0
        self.nontrivial: set = set()
        self.samples: list = []
        self.violations: list = []
        self.n_violations = 0
        self.sig_counts: dict = {}
        self.current_case = None
        self.replaying = False

    # -- bookkeeping ---------------------------------------------------------------------------
    def count(self, name: str, n: int = 1) -> None:
        self.counters[name] = self.counters.get(name, 0) + n

    def feature(self, group: str, value) -> None:
        s = self.features.get(group)
        if s is None:
            s = self.features[group] = set()
        if len(s) < 5000:
            s.add(value if isinstance(value, (str, int, bool)) else repr(value))

    def case(self, case, nontrivial: bool, sample=None) -> None:
        """Register one executed case (inputs)."""
        self.evaluations += 1
        if nontrivial:
            if isinstance(case, dict) and "index" in case:
                case = {k: v for k, v in case.items() if k != "index"}  # the stream position is not an input
            self.nontrivial.add(case_hash(case))
            if len(self.samples) < 3:
                self.samples.append(enc(sample if sample is not None else case))

    def rng(self, index) -> random.Random:
        return random.Random(f"{self.seed}:{self.prop}:{index}")

    # -- verdicts ------------------------------------------------------------------------------
    def check(self, rule: str, ok: bool, detail=None, key=None, case=None) -> bool:
        """Evaluate one monitor rule.  ``detail`` may be a callable (lazy)."""
        self.counters["rule:" + rule] = self.counters.get("rule:" + rule, 0) + 1
        if not ok:
            self.violation(rule, detail() if callable(detail) else detail, key=key, case=case)
        return bool(ok)

    def violation(self, rule: str, detail=None, key=None, case=None) -> None:
        self.n_violations += 1
        self.counters["violation:" + rule] = self.counters.get("violation:" + rule, 0) + 1
        sig = (rule, key)
        n = self.sig_counts[sig] = self.sig_counts.get(sig, 0) + 1
        # the cap is per (rule, mechanism key): a flooding known finding can never crowd out a
        # different violation
        if n <= MAX_STORED_PER_SIGNATURE:
            self.violations.append(
                {
                    "rule": rule,
                    "key": key,
                    "detail": enc(detail),
                    "case": enc(case if case is not None else self.current_case),
                }
            )

    def result(self) -> dict:
        return {
            "counters": self.counters,
            "features": {k: sorted(v, key=repr) for k, v in self.features.items()},
            "evaluations": self.evaluations,
            "nontrivial": self.nontrivial,
            "samples": self.samples,
            "violations": self.violations,
            "n_violations": self.n_violations,
            "sig_counts": self.sig_counts,
        }


# ---------------------------------------------------------------------------------------------
# Shard worker
# ---------------------------------------------------------------------------------------------
def load_prop(prop: str):
    return importlib.import_module(f"rvmon.props.{prop}")


def run_shard(prop: str, tier: str, seed: int, shard: int, nshards: int) -> dict:
    import faulthandler

    faulthandler.enable()
    st = env.bootstrap()
    from . import attach

    mod = load_prop(prop)
    ctx = Ctx(prop, tier, seed, shard, nshards)
    att = attach.install(ctx, getattr(mod, "ATTACH", ("labware", "worklist")))
    t0 = time.time()
    crashed = None
    try:
        n = mod.n_cases(tier)
        for index in range(shard, n, nshards):
            case = mod.gen_case(ctx.rng(index), tier, index)
            case.setdefault("index", index)
            ctx.current_case = case
            try:
                mod.run_case(ctx, case)
            except attach.MonitorAbort:
                pass
            except Exception:
                # an exception inside the oracle / harness for ONE case: the other cases are still judged;
                # the run cannot be 'held' any more (inconclusive unless a violation is found elsewhere)
                ctx.count("harness_exception")
                if crashed is None:
                    crashed = traceback.format_exc()
            att.drain(ctx)
        ctx.current_case = None
        if hasattr(mod, "extra"):
            mod.extra(ctx)
            att.drain(ctx)
    except Exception:
        crashed = traceback.format_exc()
    res = ctx.result()
    res["attach"] = att.summary()
    res["crashed"] = crashed
    res["wall_s"] = time.time() - t0
    res["digest"] = st["digest"]
    res["icontract"] = st["icontract"]
    return res


def shard_main(argv) -> int:
    prop, tier, seed, shard, nshards, out = argv
    res = run_shard(prop, tier, int(seed), int(shard), int(nshards))
    with open(out, "wb") as f:
        pickle.dump(res, f)
    return 0


# ---------------------------------------------------------------------------------------------
# Findings
# ---------------------------------------------------------------------------------------------
def load_findings(prop: str) -> dict:
    p = VERIF / "known_findings.json"
    known = {}
    if p.exists():
        for e in json.loads(p.read_text()).get("findings", []):
            if e.get("property") == prop and e.get("status") == "known":
                known[e["key"]] = e
    return known


# ---------------------------------------------------------------------------------------------
# Orchestration
# ---------------------------------------------------------------------------------------------
def default_jobs(tier: str) -> int:
    if os.environ.get("VERIF_JOBS"):
        return max(1, int(os.environ["VERIF_JOBS"]))
    ncpu = os.cpu_count() or 1
    return min(ncpu, 16) if tier == "thorough" else min(ncpu, 6)


def merge(results: list) -> dict:
    m = {
        "counters": {},
        "features": {},
        "evaluations": 0,
        "nontrivial": set(),
        "samples": [],
        "violations": [],
        "n_violations": 0,
        "sig_counts": {},
        "attach": {},
        "crashed": [],
        "wall_s": 0.0,
    }
    for r in results:
        for k, v in r["counters"].items():
            m["counters"][k] = m["counters"].get(k, 0) + v
        for k, v in r["features"].items():
            m["features"].setdefault(k, set()).update(v)
        m["evaluations"] += r["evaluations"]
        m["nontrivial"] |= r["nontrivial"]
        if len(m["samples"]) < 3:
            m["samples"].extend(r["samples"][: 3 - len(m["samples"])])
        m["violations"].extend(r["violations"])
        m["n_violations"] += r["n_violations"]
        for k, v in r.get("sig_counts", {}).items():
            m["sig_counts"][k] = m["sig_counts"].get(k, 0) + v
        for k, v in r.get("attach", {}).items():
            if isinstance(v, (int, float)):
                m["attach"][k] = m["attach"].get(k, 0) + v
            elif isinstance(v, dict):
                d = m["attach"].setdefault(k, {})
                for kk, vv in v.items():
                    if isinstance(vv, (int, float)):
                        d[kk] = d.get(kk, 0) + vv
                    elif isinstance(vv, (list, set)):
                        d[kk] = sorted(set(d.get(kk, [])) | set(vv))
            else:
                m["attach"][k] = v
        if r.get("crashed"):
            m["crashed"].append(r["crashed"])
        m["wall_s"] = max(m["wall_s"], r.get("wall_s", 0.0))
        m["digest"] = r.get("digest")
        m["icontract"] = r.get("icontract")
    return m


def write_evidence(mod, tier, seed, m, verdict, reasons, wall, known_hits, n_unlisted) -> None:
    cov = {
        "evaluations": int(m["evaluations"]),
        "distinct_nontrivial": int(len(m["nontrivial"])),
        "rule": mod.RULE,
        "samples": m["samples"][:3],
        "verdict": verdict,
        "inconclusive_reasons": reasons,
        "rule_evaluations": {
            k[5:]: v for k, v in sorted(m["counters"].items()) if k.startswith("rule:")
        },
        "observed": {
            k: v
            for k, v in sorted(m["counters"].items())
            if not k.startswith("rule:") and not k.startswith("violation:")
        },
        "violations_by_rule": {
            k[10:]: v for k, v in sorted(m["counters"].items()) if k.startswith("violation:")
        },
        "distinct_features": {
            k: (sorted(v, key=repr) if len(v) <= 40 else {"count": len(v), "first": sorted(v, key=repr)[:40]})
            for k, v in sorted(m["features"].items())
        },
        "instrumentation": m.get("attach", {}),
        "known_findings_hit": known_hits,
        "source_digest": m.get("digest"),
        "icontract_available": m.get("icontract"),
        "technique": getattr(mod, "TECHNIQUE", "runtime monitoring"),
    }
    if getattr(mod, "EXHAUSTIVE", None):
        cov["exhaustive"] = bool(m["counters"].get("exhaustive_complete", 0) > 0)
        cov["exhaustive_scope"] = mod.EXHAUSTIVE
    ev = {
        "property_id": mod.ID,
        "tier": tier,
        "seed": int(seed),
        "level": mod.LEVEL,
        "coverage": cov,
        "assumptions": list(getattr(mod, "ASSUMPTIONS", [])),
        "wall_s": round(wall, 3),
        "violations": int(n_unlisted),
    }
    # evidence/ describes /repo itself; runs against a scratch tree (self-tests with RVMON_REPO) must not
    # overwrite it
    d = VERIF / "evidence" if str(env.repo_root()) == "/repo" else VERIF / ".work" / "evidence-scratch"
    d.mkdir(parents=True, exist_ok=True)
    tmp = d / f".{mod.ID}.json.tmp"
    tmp.write_text(json.dumps(ev, indent=1, sort_keys=False, default=repr) + "\n")
    os.replace(tmp, d / f"{mod.ID}.json")


def timeout_for(tier: str) -> int:
    return int(os.environ.get("VERIF_TIMEOUT", 7200 if tier == "thorough" else 1500))


def run_check(prop: str, tier: str, seed: int) -> int:
    t0 = time.time()
    mod_name = prop
    jobs = default_jobs(tier)
    work = env.workdir(f"{prop}-{os.getpid()}")
    outs = []
    procs = []
    penv = dict(os.environ)
    penv.setdefault("PYTHONHASHSEED", "0")
    penv.setdefault("PYTHONDONTWRITEBYTECODE", "1")
    penv["PYTHONPATH"] = str(VERIF) + os.pathsep + penv.get("PYTHONPATH", "")
    penv["RVMON_WORK"] = str(work)
    for s in range(jobs):
        out = work / f"shard{s}.pkl"
        outs.append(out)
        procs.append(
            subprocess.Popen(
                [sys.executable, "-m", "rvmon.core", "--shard", prop, tier, str(seed), str(s), str(jobs), str(out)],
                env=penv,
                cwd=str(VERIF),
            )
        )
    reasons = []
    deadline = t0 + timeout_for(tier)
    results = []
    for s, (p, out) in enumerate(zip(procs, outs)):
        try:
            rc = p.wait(timeout=max(1, deadline - time.time()))
        except subprocess.TimeoutExpired:
            p.kill()
            p.wait()
            reasons.append(f"shard {s} hit the wall-clock watchdog")
            continue
        if rc != 0 or not out.exists():
            reasons.append(f"shard {s} exited with status {rc} without a result")
            continue
        with open(out, "rb") as f:
            results.append(pickle.load(f))
    # clean scratch
    import shutil

    shutil.rmtree(work, ignore_errors=True)

    env.ensure_deps()
    sys.path.insert(0, str(VERIF))
    mod = importlib.import_module(f"rvmon.props.{mod_name}")
    m = merge(results) if results else merge([])
    for c in m["crashed"]:
        reasons.append("shard crashed in the harness: " + c.strip().splitlines()[-1])
        sys.stderr.write(c + "\n")

    # classify violations
    known = load_findings(prop)
    known_hits = {}
    unlisted = []
    for v in m["violations"]:
        if not (v.get("key") and v["key"] in known):
            unlisted.append(v)
    n_unlisted = 0
    for (rule, key), n in m["sig_counts"].items():
        if key and key in known:
            known_hits[key] = known_hits.get(key, 0) + n
        else:
            n_unlisted += n
    if n_unlisted and not unlisted:  # cannot happen (every signature stores its first witnesses)
        reasons.append("violations counted but no witness stored")

    if not unlisted:
        if not reasons:
            try:
                stats = {
                    "counters": m["counters"],
                    "features": m["features"],
                    "evaluations": m["evaluations"],
                    "distinct_nontrivial": len(m["nontrivial"]),
                    "attach": m["attach"],
                }
                reasons.extend(mod.gates(stats, tier))
            except Exception:
                reasons.append("gate evaluation failed: " + traceback.format_exc().strip().splitlines()[-1])
    verdict = "violated" if unlisted else ("inconclusive" if reasons else "held")
    wall = time.time() - t0
    write_evidence(mod, tier, seed, m, verdict, reasons, wall, known_hits, n_unlisted)

    for k, n in sorted(known_hits.items()):
        print(f"KNOWN-FINDING: property={prop} {k}: {known[k].get('mechanism', '')} (observed {n}x)")
    rdir = VERIF / "replays" / prop
    if rdir.exists() and not os.environ.get("RVMON_KEEP_REPLAYS"):
        for old in rdir.glob("*.json"):
            old.unlink()
    if unlisted:
        rdir.mkdir(parents=True, exist_ok=True)
        seen = set()
        for v in unlisted:
            # one witness file and one stdout line per (rule, mechanism key)
            sig = (v["rule"], v.get("key"))
            if sig in seen or len(seen) >= 12:
                continue
            seen.add(sig)
            h = hashlib.sha1(json.dumps(v, sort_keys=True, default=repr).encode()).hexdigest()[:12]
            path = rdir / f"{h}.json"
            w = {
                "property": prop,
                "tier": tier,
                "seed": seed,
                "rule": v["rule"],
                "finding_key": v.get("key"),
                "detail": v["detail"],
                "case": v["case"],
                "source_digest": m.get("digest"),
            }
            path.write_text(json.dumps(w, indent=1, default=repr) + "\n")
            print(f"VIOLATION property={prop} replay={path}  rule={v['rule']}")
        print(f"# {prop}: {m['n_violations']} violating rule evaluations in {m['evaluations']} cases")
        return 1
    if reasons:
        for r in reasons:
            print(f"INCONCLUSIVE property={prop} reason={r}")
        return 2
    print(
        f"HELD property={prop} tier={tier} seed={seed} cases={m['evaluations']} "
        f"distinct_nontrivial={len(m['nontrivial'])} wall={wall:.1f}s"
    )
    return 0


def run_replay(prop: str, path: str) -> int:
    st = env.bootstrap()
    from . import attach

    w = json.loads(Path(path).read_text())
    mod = load_prop(prop)
    ctx = Ctx(prop, w.get("tier", "quick"), int(w.get("seed", 0)))
    ctx.replaying = True
    att = attach.install(ctx, getattr(mod, "ATTACH", ("labware", "worklist")))
    case = w["case"]
    ctx.current_case = case
    try:
        mod.run_case(ctx, case)
    except attach.MonitorAbort:
        pass
    att.drain(ctx)
    known = load_findings(prop)
    bad = [v for v in ctx.violations if not (v.get("key") and v["key"] in known)]
    for v in ctx.violations:
        if v.get("key") and v["key"] in known:
            print(f"KNOWN-FINDING: property={prop} {v['key']}")
    if bad:
        for v in bad[:5]:
            print(f"VIOLATION property={prop} replay={path}  rule={v['rule']}")
            print("  detail:", json.dumps(v["detail"], default=repr)[:2000])
        return 1
    print(f"HELD property={prop} (replayed {path} against {st['repo']})")
    return 0


def main(argv=None) -> int:
    argv = list(sys.argv[1:] if argv is None else argv)
    if argv and argv[0] == "--shard":
        return shard_main(argv[1:])
    if not argv:
        print("usage: check <Cnn> [quick|thorough] | check <Cnn> --replay <file>")
        return 2
    prop = argv[0]
    if len(argv) >= 3 and argv[1] == "--replay":
        return run_replay(prop, argv[2])
    tier = argv[1] if len(argv) > 1 else os.environ.get("VERIF_TIER", "quick")
    if tier not in ("quick", "thorough"):
        tier = "quick"
    seed = int(os.environ.get("VERIF_SEED", "0") or 0)
    return run_check(prop, tier, seed)


if __name__ == "__main__":
    sys.exit(main())
