"""Independent parser + interpreter of the Tecan worklist (.gwl) record format.

Written from the record layout documented for Freedom EVOware / FluentControl worklists and
advanced worklist (script) commands - NOT from robotools' templates:

  A;RackLabel;RackID;RackType;Position;TubeID;Volume;LiquidClass;TipType;TipMask;ForcedRackType
  D;...same ten fields...
  W;  W1;  W2;  W3;  W4;  WD;  F;  B;  C;text  S;index
  R;SrcLabel;SrcID;SrcType;SrcStart;SrcEnd;DstLabel;DstID;DstType;DstStart;DstEnd;Volume;
    LiquidClass;DiTiReuse;MultiDisp;Direction[;ExcludedWell]*
  B;Aspirate(mask,"lc",v1..v12,grid,site,spacing,"selection",0,arm);     (same for Dispense)
  B;Wash(mask,wasteGrid,wasteSite,cleanerGrid,cleanerSite,"wasteVol",wasteDelay,"cleanerVol",
         cleanerDelay,airgap,airgapSpeed,retractSpeed,fastWash,lowVolume,1000,arm);

The interpreter is initialised from the *worktable description produced by the generator*
(rack label -> geometry, limits, initial volumes, component names), never from Labware objects.
Liquid is tracked exactly (fractions.Fraction) as absolute component amounts per real well.
"""
from __future__ import annotations

import re
from decimal import Decimal, InvalidOperation
from fractions import Fraction


class GrammarError(Exception):
    pass


class ReplayError(Exception):
    """The record cannot be executed on the described worktable."""


_VOL2 = re.compile(r"^[0-9]+\.[0-9]{2}$")
_POS = re.compile(r"^[0-9]+$")
_INT = re.compile(r"^-?[0-9]+$")


class Rec:
    __slots__ = ("type", "f", "raw")

    def __init__(self, type_, fields, raw):
        self.type = type_
        self.f = fields
        self.raw = raw

    def __repr__(self):
        return f"Rec({self.type}, {self.f})"


def parse(record) -> Rec:
    """Strict parse of one worklist record. Raises GrammarError."""
    if not isinstance(record, str):
        raise GrammarError(f"record is not a string: {type(record).__name__}")
    if "\n" in record or "\r" in record:
        raise GrammarError("record contains a line break")
    if record.startswith("B;") and len(record) > 2:
        return _parse_script(record)
    parts = record.split(";")
    t = parts[0]
    if t in ("A", "D"):
        if len(parts) != 11:
            raise GrammarError(f"{t} record with {len(parts)} fields (11 required)")
        (_, label, rid, rtype, pos, tube, vol, lc, tiptype, mask, forced) = parts
        if not _POS.match(pos):
            raise GrammarError(f"position field {pos!r}")
        if not _VOL2.match(vol):
            raise GrammarError(f"volume field {vol!r}")
        if tiptype != "":
            raise GrammarError(f"tip type field {tiptype!r}")
        if mask != "":
            if not _POS.match(mask) or not (1 <= int(mask) <= 255):
                raise GrammarError(f"tip mask field {mask!r}")
        for nm, val in (("rack label", label), ("rack id", rid), ("rack type", rtype)):
            if len(val) > 32:
                raise GrammarError(f"{nm} longer than 32 characters")
        return Rec(
            t,
            {
                "label": label,
                "rack_id": rid,
                "rack_type": rtype,
                "position": int(pos),
                "tube_id": tube,
                "volume": Fraction(Decimal(vol)),
                "volume_s": vol,
                "liquid_class": lc,
                "tip_mask": int(mask) if mask else None,
                "forced_rack_type": forced,
            },
            record,
        )
    if t == "R":
        if len(parts) < 16:
            raise GrammarError(f"R record with {len(parts)} fields (>= 16 required)")
        (_, sl, sid, styp, s0, s1, dl, did, dtyp, d0, d1, vol, lc, reuse, multi, direction) = parts[:16]
        excl = parts[16:]
        for nm, val in (("src start", s0), ("src end", s1), ("dst start", d0), ("dst end", d1)):
            if not _POS.match(val):
                raise GrammarError(f"{nm} field {val!r}")
        try:
            dv = Decimal(vol)
        except InvalidOperation:
            raise GrammarError(f"R volume field {vol!r}")
        if not dv.is_finite() or dv < 0:
            raise GrammarError(f"R volume field {vol!r}")
        if not _INT.match(reuse) or not _INT.match(multi):
            raise GrammarError(f"R reuse/multi fields {reuse!r} {multi!r}")
        if direction not in ("0", "1"):
            raise GrammarError(f"R direction field {direction!r}")
        ex = []
        for e in excl:
            if not _POS.match(e):
                raise GrammarError(f"R exclusion field {e!r}")
            ex.append(int(e))
        if ex != sorted(ex):
            raise GrammarError(f"R exclusion list not sorted: {ex}")
        for e in ex:
            if not (int(d0) <= e <= int(d1)):
                raise GrammarError(f"R exclusion {e} outside the destination range")
        for nm, val in (("rack label", sl), ("rack label", dl), ("rack id", sid), ("rack id", did),
                        ("rack type", styp), ("rack type", dtyp)):
            if len(val) > 32:
                raise GrammarError(f"{nm} longer than 32 characters")
        return Rec(
            "R",
            {
                "src_label": sl,
                "src_id": sid,
                "src_type": styp,
                "src_start": int(s0),
                "src_end": int(s1),
                "dst_label": dl,
                "dst_id": did,
                "dst_type": dtyp,
                "dst_start": int(d0),
                "dst_end": int(d1),
                "volume": Fraction(dv),
                "volume_s": vol,
                "liquid_class": lc,
                "diti_reuse": int(reuse),
                "multi_disp": int(multi),
                "direction": int(direction),
                "exclude": ex,
            },
            record,
        )
    if t == "C":
        if len(parts) != 2:
            raise GrammarError("comment with a separator in its text")
        return Rec("C", {"text": parts[1]}, record)
    if t in ("W", "W1", "W2", "W3", "W4", "WD", "F", "B"):
        if len(parts) != 2 or parts[1] != "":
            raise GrammarError(f"{t} record with trailing content")
        if t[0] == "W" and t != "WD":
            return Rec("W", {"scheme": int(t[1]) if len(t) == 2 else None}, record)
        return Rec(t, {}, record)
    if t == "S":
        if len(parts) != 2 or not _POS.match(parts[1]):
            raise GrammarError(f"S record {record!r}")
        return Rec("S", {"index": int(parts[1])}, record)
    raise GrammarError(f"unknown record type {t!r}")


# ---------------------------------------------------------------------------------------------
# script commands
# ---------------------------------------------------------------------------------------------
_SCRIPT = re.compile(r"^B;(Aspirate|Dispense|Wash)\((.*)\);$")


def _split_args(s: str):
    """Split a script argument list at top-level commas (strings are double-quoted)."""
    out, cur, inq = [], "", False
    for ch in s:
        if ch == '"':
            inq = not inq
            cur += ch
        elif ch == "," and not inq:
            out.append(cur)
            cur = ""
        else:
            cur += ch
    if inq:
        raise GrammarError("unterminated string in script command")
    out.append(cur)
    return out


def _q(s):
    if len(s) >= 2 and s[0] == '"' and s[-1] == '"':
        return s[1:-1]
    raise GrammarError(f"expected a quoted string, got {s!r}")


def _i(s):
    if not _INT.match(s):
        raise GrammarError(f"expected an integer, got {s!r}")
    return int(s)


def decode_selection(sel: str):
    """EVOware well-selection string -> (columns, rows, set of (row, col)), strict."""
    if len(sel) < 4:
        raise GrammarError("selection string shorter than 4 characters")
    try:
        cols = int(sel[0:2], 16)
        rows = int(sel[2:4], 16)
    except ValueError:
        raise GrammarError(f"selection header {sel[:4]!r}")
    n = rows * cols
    need = 4 + (n + 6) // 7
    if len(sel) != need:
        raise GrammarError(f"selection string has {len(sel)} characters, {need} required for {rows}x{cols}")
    chosen = set()
    for ci, ch in enumerate(sel[4:]):
        val = ord(ch) - 48
        if not (0 <= val < 128):
            raise GrammarError(f"selection character {ch!r} out of range")
        for b in range(7):
            if val >> b & 1:
                w = ci * 7 + b
                if w >= n:
                    raise GrammarError("padding bit set in selection string")
                chosen.add((w % rows, w // rows))
    return cols, rows, chosen


def _parse_script(record: str) -> Rec:
    m = _SCRIPT.match(record)
    if not m:
        raise GrammarError(f"malformed script command {record!r}")
    name, args = m.group(1), _split_args(m.group(2))
    if name in ("Aspirate", "Dispense"):
        if len(args) != 20:
            raise GrammarError(f"{name} with {len(args)} arguments (20 required)")
        mask = _i(args[0])
        lc = _q(args[1])
        slots = []
        for a in args[2:14]:
            if a == "0":
                slots.append(None)
            else:
                try:
                    d = Decimal(_q(a))
                except InvalidOperation:
                    raise GrammarError(f"volume slot {a!r}")
                if not d.is_finite() or d < 0:
                    raise GrammarError(f"volume slot {a!r}")
                slots.append(Fraction(d))
        grid, site, spacing = _i(args[14]), _i(args[15]), _i(args[16])
        sel = _q(args[17])
        opt, arm = _i(args[18]), _i(args[19])
        cols, rows, chosen = decode_selection(sel)
        return Rec(
            "script",
            {
                "name": name,
                "mask": mask,
                "liquid_class": lc,
                "slots": slots,
                "grid": grid,
                "site": site,
                "spacing": spacing,
                "selection": sel,
                "sel_rows": rows,
                "sel_cols": cols,
                "wells": chosen,
                "options": opt,
                "arm": arm,
            },
            record,
        )
    if len(args) != 16:
        raise GrammarError(f"Wash with {len(args)} arguments (16 required)")
    f = {
        "name": "Wash",
        "mask": _i(args[0]),
        "waste_grid": _i(args[1]),
        "waste_site": _i(args[2]),
        "cleaner_grid": _i(args[3]),
        "cleaner_site": _i(args[4]),
        "waste_vol": _q(args[5]),
        "waste_delay": _i(args[6]),
        "cleaner_vol": _q(args[7]),
        "cleaner_delay": _i(args[8]),
        "airgap": _i(args[9]),
        "airgap_speed": _i(args[10]),
        "retract_speed": _i(args[11]),
        "fastwash": _i(args[12]),
        "low_volume": _i(args[13]),
        "atfreq": _i(args[14]),
        "arm": _i(args[15]),
    }
    return Rec("script", f, record)


def script_effect(rec: Rec):
    """(row, col) -> volume pipetted by an Aspirate/Dispense script command.

    EVOware rule: the selected tips in ascending order serve the selected wells in ascending row
    order; slot i (0-based) belongs to tip i+1.  Raises ReplayError if the command is not
    executable (mask bits / volume slots / wells do not pair up, several columns, mask > 255).
    """
    f = rec.f
    mask = f["mask"]
    if mask < 1 or mask > 255:
        raise ReplayError(f"tip mask {mask} is not a set of the 8 tips")
    tips = [i for i in range(8) if mask >> i & 1]
    for i, s in enumerate(f["slots"]):
        if i >= 8 and s is not None:
            raise ReplayError("volume in a slot beyond tip 8")
        if i < 8 and (s is not None) != (i in tips):
            raise ReplayError(f"volume slot {i + 1} and tip mask {mask} disagree")
    wells = sorted(f["wells"], key=lambda rc: (rc[1], rc[0]))
    if len({c for _, c in wells}) > 1:
        raise ReplayError("wells of several columns selected")
    if len(wells) != len(tips):
        raise ReplayError(f"{len(tips)} tips but {len(wells)} wells selected")
    return {w: f["slots"][t] for w, t in zip(wells, tips)}


# ---------------------------------------------------------------------------------------------
# interpreter
# ---------------------------------------------------------------------------------------------
class Well:
    __slots__ = ("vol", "amounts", "tainted", "touched", "lo", "hi")

    def __init__(self, vol: Fraction, name):
        self.vol = vol
        self.amounts = {name: vol} if vol > 0 and name is not None else {}
        self.tainted = vol > 0 and name is None
        self.touched = 0
        self.lo = vol
        self.hi = vol


class Rack:
    def __init__(self, desc):
        self.desc = desc
        self.name = desc["name"]
        self.trough = desc["kind"] == "trough"
        self.rows = 1 if self.trough else desc["rows"]
        self.cols = desc["columns"]
        self.vrows = desc.get("virtual_rows") if self.trough else None
        self.min = Fraction(desc["min_volume"])
        self.max = Fraction(desc["max_volume"])
        init = desc["initial"]
        names = desc.get("names") or {}
        self.wells = {}
        for r in range(self.rows):
            for c in range(self.cols):
                v = Fraction(init[r][c])
                nm = names.get(f"{r},{c}")
                self.wells[(r, c)] = Well(v, nm)

    def decode(self, position: int, device: str):
        """Device-specific position -> (real (r,c), virtual row or None)."""
        p = position - 1
        if p < 0:
            raise ReplayError(f"position {position} on rack {self.name}")
        if self.trough:
            if device == "fluent":
                c = p
                vr = None
            else:
                c, vr = divmod(p, self.vrows)
            if c >= self.cols:
                raise ReplayError(f"position {position} outside trough {self.name}")
            return (0, c), vr
        c, r = divmod(p, self.rows)
        if c >= self.cols:
            raise ReplayError(f"position {position} outside plate {self.name}")
        return (r, c), None


class Interp:
    """Executes records on the described worktable. ``device`` is 'evo' or 'fluent'."""

    def __init__(self, worktable, device: str, check_limits=False, tol_per_record=Fraction(1, 200)):
        self.device = device
        self.racks = {d["name"]: Rack(d) for d in worktable}
        self.by_site = {}
        for d in worktable:
            if d.get("grid_site"):
                self.by_site[(d["grid_site"][0], d["grid_site"][1] - 1)] = self.racks[d["name"]]
        self.tips = []  # FIFO of (volume, amounts dict or None)
        self.check_limits = check_limits
        self.tol = tol_per_record
        self.limit_events = []  # (record index, rack, well, kind, value)
        self.n = 0
        self.flows = []  # (src rack, src well, dst rack, dst well, volume) for A->D pairs and R

    def rack(self, label):
        try:
            return self.racks[label]
        except KeyError:
            raise ReplayError(f"rack label {label!r} is not on the worktable")

    # -- primitive liquid moves ---------------------------------------------------------------
    def _take(self, rack: Rack, idx, vol: Fraction):
        w = rack.wells[idx]
        w.touched += 1
        if w.tainted or vol == 0:
            mix = None if w.tainted else {}
        elif w.vol > 0:
            frac = vol / w.vol
            mix = {k: a * frac for k, a in w.amounts.items()}
            if frac >= 1:
                mix = dict(w.amounts)
        else:
            mix = None
        if mix is not None and w.vol > 0:
            for k, a in mix.items():
                w.amounts[k] = w.amounts.get(k, 0) - a
        w.vol -= vol
        if w.vol < w.lo:
            w.lo = w.vol
        if self.check_limits and w.vol < rack.min - self.tol * w.touched:
            self.limit_events.append((self.n, rack.name, idx, "below_min", w.vol))
        return mix

    def _put(self, rack: Rack, idx, vol: Fraction, mix):
        w = rack.wells[idx]
        w.touched += 1
        if mix is None:
            if vol > 0:
                w.tainted = True
        else:
            for k, a in mix.items():
                w.amounts[k] = w.amounts.get(k, 0) + a
        w.vol += vol
        if w.vol > w.hi:
            w.hi = w.vol
        if self.check_limits and w.vol > rack.max + self.tol * w.touched:
            self.limit_events.append((self.n, rack.name, idx, "above_max", w.vol))

    # -- records ------------------------------------------------------------------------------
    def apply(self, record):
        rec = record if isinstance(record, Rec) else parse(record)
        self.n += 1
        t = rec.type
        if t == "A":
            rack = self.rack(rec.f["label"])
            idx, vr = rack.decode(rec.f["position"], self.device)
            mix = self._take(rack, idx, rec.f["volume"])
            self.tips.append((rec.f["volume"], mix, rack.name, idx, vr))
            return ("A", rack.name, idx, vr, rec.f["volume"])
        if t == "D":
            rack = self.rack(rec.f["label"])
            idx, vr = rack.decode(rec.f["position"], self.device)
            vol = rec.f["volume"]
            if self.tips:
                avol, mix, srack, sidx, svr = self.tips.pop(0)
                if avol != vol:
                    # partial / different dispense volume: scale the carried liquid
                    if mix is not None and avol > 0:
                        mix = {k: a * vol / avol for k, a in mix.items()}
                    elif mix is not None:
                        mix = None
                self.flows.append((srack, sidx, rack.name, idx, vol))
            else:
                mix = None
            self._put(rack, idx, vol, mix)
            return ("D", rack.name, idx, vr, vol)
        if t in ("W", "WD", "F", "B"):
            self.tips.clear()
            return (t,)
        if t in ("C", "S"):
            return (t,)
        if t == "R":
            f = rec.f
            src = self.rack(f["src_label"])
            dst = self.rack(f["dst_label"])
            if f["src_end"] < f["src_start"] or f["dst_end"] < f["dst_start"]:
                raise ReplayError("R record with an empty range")
            sidx = {src.decode(p, self.device)[0] for p in range(f["src_start"], f["src_end"] + 1)}
            if len(sidx) != 1:
                raise ReplayError(f"R source range {f['src_start']}..{f['src_end']} spans {len(sidx)} wells of {src.name}")
            sidx = next(iter(sidx))
            targets = []
            for p in range(f["dst_start"], f["dst_end"] + 1):
                if p in f["exclude"]:
                    continue
                targets.append(dst.decode(p, self.device)[0])
            vol = f["volume"]
            total = vol * len(targets)
            mix = self._take(src, sidx, total)
            for tdx in targets:
                part = None if mix is None else ({k: a / len(targets) for k, a in mix.items()} if targets else {})
                self._put(dst, tdx, vol, part)
                self.flows.append((src.name, sidx, dst.name, tdx, vol))
            self.tips.clear()
            return ("R", src.name, sidx, dst.name, targets, vol)
        if t == "script":
            self.tips.clear()
            f = rec.f
            if f["name"] == "Wash":
                return ("script", "Wash")
            rack = self.by_site.get((f["grid"], f["site"]))
            if rack is None:
                raise ReplayError(f"no labware at grid {f['grid']}, site {f['site']} (zero-based)")
            vis_rows = rack.vrows if rack.trough else rack.rows
            if (f["sel_rows"], f["sel_cols"]) != (vis_rows, rack.cols):
                raise ReplayError(f"selection is {f['sel_rows']}x{f['sel_cols']}, labware {rack.name} is {vis_rows}x{rack.cols}")
            eff = script_effect(rec)
            out = []
            for (r, c), vol in sorted(eff.items()):
                idx = (0, c) if rack.trough else (r, c)
                if f["name"] == "Aspirate":
                    self._take(rack, idx, vol)
                else:
                    self._put(rack, idx, vol, None)
                out.append((idx, r, vol))
            return ("script", f["name"], rack.name, out)
        raise ReplayError(f"cannot execute record type {t}")

    def run(self, records):
        for r in records:
            self.apply(r)
        return self
