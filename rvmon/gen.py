"""Seeded program generators (steered by an exact volume model owned by the generator).

A *program case* is

    {"worklist": {"device", "max_volume", "auto_split", "diti_mode"},
     "worktable": [labware descriptions],
     "ops": [operation dicts understood by world.World.exec],
     "grid": bool}        # True: every requested volume lies on the 0.01 grid

The generator keeps ``GenState``: exact volumes per real well, used to steer operations so that
they succeed (conservatively: independent of the order in which the elementary steps are
executed) or so that the k-th elementary step is refused.
"""
from __future__ import annotations

import math
import random
from fractions import Fraction

import numpy as np

from .attach import fr, real_index
from .core import enc
from .world import (
    GRID_CLASSES,
    VOLUME_CLASSES,
    all_well_ids,
    gen_labware,
    gen_volume,
    narrow_scalar,
    shape_volumes,
    shape_wells,
    well_id,
)

WASH = [1, 2, 3, 4, "flush", "reuse"]
LABELS = [None, None, "", "step", "mix it", "µL-transfer", "x" * 30, "last", "first", " padded ", "line\n"]
LCS = ["", "Water", "Water_DispZmax-1_AspZmax-1", "DMSO free", "ä-class"]


class GenState:
    def __init__(self, worktable, wl):
        self.descs = {d["name"]: d for d in worktable}
        self.wl = wl
        self.vol = {
            d["name"]: {
                (r, c): fr(d["initial"][r][c])
                for r in range(1 if d["kind"] == "trough" else d["rows"])
                for c in range(d["columns"])
            }
            for d in worktable
        }

    def avail(self, name, idx):
        d = self.descs[name]
        return self.vol[name][idx] - fr(d["min_volume"])

    def room(self, name, idx):
        d = self.descs[name]
        return fr(d["max_volume"]) - self.vol[name][idx]


def gen_worklist_cfg(rng, device=None, split_bias=0.5):
    device = device or rng.choice(["evo", "fluent"])
    r = rng.random()
    if r < 0.35:
        mv = 950
    elif r < 0.6:
        mv = rng.choice([50, 100, 200, 250, 1000])
    elif r < 0.8:
        mv = rng.choice([10, 20, 37, 64, 500])
    else:
        mv = rng.choice([333.3, 99.99, 250.5, 950.5, 0.5, 2.5, 12.5])
    cfg = {"device": device, "max_volume": mv, "auto_split": True, "diti_mode": rng.random() < 0.25}
    r2 = rng.random()
    if r2 < 0.08:
        cfg["flavour"] = "subclass"
    elif r2 < 0.14 and device == "evo":
        cfg["flavour"] = "deprecated_worklist"
    elif r2 < 0.22:
        cfg["flavour"] = "configured_by_assignment"
    if rng.random() < 0.25:
        # the worklist already holds records when the operations under test start (a prelude written by the user)
        pre = []
        if cfg["diti_mode"] and rng.random() < 0.7:
            pre.append({"op": "set_diti", "index": rng.choice([1, 2, 3, 4])})
        pre += rng.choice([[], [{"op": "comment", "text": "prelude"}], [{"op": "wash", "scheme": rng.choice([1, 2, 3, 4])}],
                           [{"op": "comment", "text": "prelude"}, {"op": "commit"}]])
        if pre and pre[0]["op"] != "set_diti" and cfg["diti_mode"] and rng.random() < 0.5:
            pre += [{"op": "commit"}, {"op": "set_diti", "index": rng.choice([1, 2, 3])}]
        if pre:
            cfg["preamble"] = pre
    return cfg


def sync_twins(wt):
    """A replica built from the same initial-volume array has, by construction, the same initial volumes
    (call this after editing the initial volumes / names of a generated worktable)."""
    import copy

    by = {d["name"]: d for d in wt}
    for d in wt:
        src = by.get(d.get("shares_initial_array_with"))
        if src is not None:
            d["initial"] = copy.deepcopy(src["initial"])
            if src.get("names") is None:
                d["names"] = None
            else:
                d["names"] = {k: (v.replace(src["name"] + "@", d["name"] + "@") if isinstance(v, str) else v)
                              for k, v in src["names"].items()}
            d["naming"] = src.get("naming")
    return wt


def gen_worktable(rng, n=None, vclass="int", limits=None, need_trough=False, naming="explicit", small=False, nonlatin=False):
    n = n or rng.choice([1, 2, 2, 3])
    out = []
    for i in range(n):
        kind = None
        if need_trough and i == 0:
            kind = "trough"
        lim = limits or rng.choice(["loose", "loose", "tight", "wide"])
        fill = "mixed"
        out.append(gen_labware(rng, f"L{i}", kind=kind, vclass=vclass, fill=fill, limits=lim, naming=naming, small=small))
    # a replica of a plate, built by the caller from the very same initial-volume array
    plates = [d for d in out if d["kind"] == "plate"]
    if plates and rng.random() < 0.12:
        import copy

        d0 = rng.choice(plates)
        d1 = copy.deepcopy(d0)
        d1["name"] = f"L{len(out)}"
        d1["grid_site"] = [10 + 3 * len(out), 1 + len(out)]
        if d1.get("names"):
            d1["names"] = {k: v.replace(d0["name"] + "@", d1["name"] + "@") for k, v in d1["names"].items()}
        d0["array_is_shared"] = True
        d1["shares_initial_array_with"] = d0["name"]
        d1.pop("legacy", None)
        out.append(d1)
    # rack labels must be distinct; make some of them "interesting" (spaces, latin-1, 32 chars)
    if rng.random() < 0.3:
        fancy = rng.choice(["MTP 96-well", "Tröge_µ", "R" * 32, "rack.1", "Systemliquid", "Systemliquid", "Waste",
                             "Nährlösung für Vorkültür ÄÖÜ µ°", "µ" * 32, "é" * 17])  # incl. built-in EVOware identifiers; 32 characters are 32 bytes in the Latin-1 of the file
        if rng.random() < 0.2:
            # a name that differs from another labware's name by a blank at the end / the beginning only
            # (still distinct names), or a name with a blank at one end
            base_ = rng.choice([x["name"] for x in out])
            fancy = rng.choice([base_ + " ", " " + base_, "MTP 96 ", " rack"])
            if fancy in [x["name"] for x in out]:
                fancy = "MTP 96 "
        if nonlatin and rng.random() < 0.35:
            fancy = rng.choice(["Assay-α", "β-Gal plate", "plate №2"])  # not encodable in the Latin-1 of a .gwl file
        d = out[rng.randrange(len(out))]
        old = d["name"]
        d["name"] = fancy
        if d.get("names"):
            d["names"] = {k: v.replace(old + "@", fancy + "@") for k, v in d["names"].items()}
        for other in out:
            if other.get("shares_initial_array_with") == old:
                other["shares_initial_array_with"] = fancy
    return out


# ---------------------------------------------------------------------------------------------
# volume choice
# ---------------------------------------------------------------------------------------------
def _cap(vclass, v: float, limit: Fraction):
    """Largest value of the class <= limit (minus a safety margin), or 0.0."""
    lim = float(limit) - 0.011
    if lim <= 0:
        return 0.0
    if v <= lim:
        return v
    if vclass == "int":
        return float(math.floor(lim))
    if vclass == "quarter":
        return math.floor(lim * 4) / 4.0
    if vclass == "cent":
        return math.floor(lim * 100) / 100.0
    return lim * 0.97


def pick_volume(rng, vclass, wl_max, allow_split=True, hi=None):
    r = rng.random()
    if r < 0.08:
        return 0.0
    m = float(wl_max)
    if allow_split and r < 0.35:
        k = rng.choice([1, 1, 2, 3, 5])
        base = m * k
        extra = gen_volume(rng, vclass, max(m, 1.0))
        v = base + extra
        if vclass == "int":
            v = float(round(v))
        elif vclass == "quarter":
            v = round(v * 4) / 4.0
        elif vclass == "cent":
            v = round(v * 100) / 100.0
        if rng.random() < 0.2:
            v = m * k  # exactly a multiple
            if vclass in GRID_CLASSES:
                v = round(v * 100) / 100.0
        return float(v)
    return gen_volume(rng, vclass, hi or min(300.0, max(m, 0.05)))


# ---------------------------------------------------------------------------------------------
# operations
# ---------------------------------------------------------------------------------------------
def gen_transfer(rng, st: GenState, vclass, allow_split=True, kw_level=1):
    names = list(st.descs)
    src = rng.choice(names)
    dst = rng.choice(names) if rng.random() < 0.8 else src
    sd, dd = st.descs[src], st.descs[dst]
    sids, dids = all_well_ids(sd), all_well_ids(dd)
    n = rng.choice([1, 1, 2, 3, 4, 6, 8, 12])
    mode = rng.choice(["many-many", "many-many", "one-many", "many-one", "column", "repeat"])
    if mode == "column":
        # a whole column of the source into a whole column of the destination (typical use)
        n = min(len([1 for _ in range(sd["virtual_rows"] or sd["rows"])]), len([1 for _ in range(dd["virtual_rows"] or dd["rows"])]), 12)
        sc = rng.randrange(sd["columns"])
        dc = rng.randrange(dd["columns"])
        sw = [(well_id(r, sc), real_index(sd, well_id(r, sc))) for r in range(n)]
        dw = [(well_id(r, dc), real_index(dd, well_id(r, dc))) for r in range(n)]
    else:
        if mode == "one-many":
            s = rng.choice(sids)
            sw = [s] * n
            dw = [rng.choice(dids) for _ in range(n)]
        elif mode == "many-one":
            d = rng.choice(dids)
            dw = [d] * n
            sw = [rng.choice(sids) for _ in range(n)]
        elif mode == "repeat":
            pool_s = [rng.choice(sids) for _ in range(max(1, n // 2))]
            pool_d = [rng.choice(dids) for _ in range(max(1, n // 2))]
            sw = [rng.choice(pool_s) for _ in range(n)]
            dw = [rng.choice(pool_d) for _ in range(n)]
        else:
            sw = [rng.choice(sids) for _ in range(n)]
            dw = [rng.choice(dids) for _ in range(n)]
    vols = []
    removed, added = {}, {}
    uniform = rng.random() < 0.3
    v_uni = pick_volume(rng, vclass, st.wl["max_volume"], allow_split)
    for (sid, sidx), (did, didx) in zip(sw, dw):
        v = v_uni if uniform else pick_volume(rng, vclass, st.wl["max_volume"], allow_split)
        a = st.avail(src, sidx) - removed.get(sidx, 0)
        r_ = st.room(dst, didx) - added.get(didx, 0)
        if src == dst:
            # conservative in both directions: additions/removals of this op are not credited
            pass
        mv_ = float(st.wl["max_volume"])
        if (vclass in ("int", "quarter") and a > 0 and r_ >= a and rng.random() < 0.12 and a <= 40 * fr(st.wl["max_volume"])
                and (a <= fr(mv_) or (mv_ * 4).is_integer())):
            # drain the source well completely (binary-exact classes only: the float state is exact; a split
            # drain needs a binary-exact step limit as well - 7 x 333.3 is not exact, and a refusal of the
            # last partition by 6e-14 uL would be legitimate float behaviour, not a finding)
            v = float(a)
            uniform = False
        else:
            v = _cap(vclass, v, min(a, r_))
        if uniform and v != v_uni:
            uniform = False
        vols.append(v)
        removed[sidx] = removed.get(sidx, 0) + fr(v)
        added[didx] = added.get(didx, 0) + fr(v)
    for sidx, x in removed.items():
        st.vol[src][sidx] -= x
    for didx, x in added.items():
        st.vol[dst][didx] += x
    s_ids = [w for w, _ in sw]
    d_ids = [w for w, _ in dw]
    # presentation
    if mode == "one-many" and rng.random() < 0.7:
        sw_arg, s_shape = s_ids[0], "scalar"
    else:
        sw_arg, s_shape = shape_wells(rng, s_ids)
    if mode == "many-one" and rng.random() < 0.7:
        dw_arg, d_shape = d_ids[0], "scalar"
    else:
        dw_arg, d_shape = shape_wells(rng, d_ids) if not s_shape.startswith("2d") else _like(rng, d_ids, s_shape)
    like = s_shape if s_shape.startswith("2d") else (d_shape if d_shape.startswith("2d") else None)
    vol_arg, v_shape = shape_volumes(rng, vols, like)
    op = {
        "op": "transfer",
        "src": src,
        "sw": sw_arg,
        "dst": dst,
        "dw": dw_arg,
        "vol": vol_arg,
        "label": rng.choice(LABELS),
        "wash": rng.choice(WASH),
        "pb": rng.choice(["auto", "auto", "source", "destination"]),
        "kw": gen_kwargs(rng, kw_level),
        # generator-side ground truth (what the call names), used by the oracles
        "_triples": [[s, d, v] for s, d, v in zip(s_ids, d_ids, vols)],
        "_shapes": [s_shape, d_shape, v_shape, mode],
    }
    return op


def _like(rng, ids, shape):
    r, c = map(int, shape[3:].split("x"))
    nested = [[ids[j * r + i] for j in range(c)] for i in range(r)]
    return enc(np.array(nested)), shape


def gen_kwargs(rng, level=1):
    from robotools import Tip

    kw = {}
    if level <= 0:
        return kw
    if rng.random() < 0.4:
        kw["liquid_class"] = rng.choice(LCS)
    if rng.random() < 0.3:
        t = rng.choice(["int", "tip", "list", "set", "any"])
        if t == "int":
            kw["tip"] = rng.randint(1, 8)
        elif t == "tip":
            kw["tip"] = rng.choice([Tip.T1, Tip.T2, Tip.T3, Tip.T4, Tip.T5, Tip.T6, Tip.T7, Tip.T8])
        elif t == "list":
            kw["tip"] = [rng.choice([rng.randint(1, 8), rng.choice(list(Tip)[1:])]) for _ in range(rng.randint(1, 4))]
        elif t == "set":
            kw["tip"] = set(rng.sample(range(1, 9), rng.randint(1, 3)))
        else:
            kw["tip"] = Tip.Any
    if level >= 2:
        if rng.random() < 0.2:
            kw["rack_id"] = rng.choice(["", "BC001", "id 7"])
        if rng.random() < 0.2:
            kw["rack_type"] = rng.choice(["", "96 Well Microplate", "Trough 100ml"])
        if rng.random() < 0.1:
            kw["tube_id"] = rng.choice(["", "T-1"])
        if rng.random() < 0.1:
            kw["forced_rack_type"] = rng.choice(["", "forced"])
    return enc(kw)


def gen_distribute(rng, st: GenState, vclass, positions_distinct_for="evo"):
    troughs = [n for n, d in st.descs.items() if d["kind"] == "trough"]
    if not troughs:
        return None
    src = rng.choice(troughs)
    sd = st.descs[src]
    col = rng.randrange(sd["columns"])
    dst = rng.choice([n for n in st.descs])
    dd = st.descs[dst]
    dids = all_well_ids(dd)
    # destination wells with pairwise distinct device positions
    if dd["kind"] == "trough" and st.wl["device"] == "fluent":
        seen, uniq = set(), []
        for w, idx in dids:
            if idx not in seen:
                seen.add(idx)
                uniq.append((w, idx))
        dids = uniq
    k = rng.choice([1, 2, 3, 5, 8, len(dids)])
    k = max(1, min(k, len(dids), 40))
    mode = rng.choice(["block", "random", "random"])
    if mode == "block":
        start = rng.randrange(0, len(dids) - k + 1)
        chosen = dids[start : start + k]
    else:
        chosen = rng.sample(dids, k)
    if rng.random() < 0.5:
        rng.shuffle(chosen)
    m = float(st.wl["max_volume"])
    v = gen_volume(rng, vclass, min(m, 200.0)) if rng.random() > 0.08 else 0.0
    if v > m:
        v = _cap(vclass, v, fr(m) + Fraction(11, 1000))
    # feasibility: source holds k*v, every destination has room (src may equal dst)
    a = st.avail(src, (0, col))
    per = a / k
    if vclass in ("int", "quarter") and per > 0 and float(per) * k == float(a) and per <= fr(m) and rng.random() < 0.15 \
            and all(st.room(dst, idx) >= per for _, idx in chosen) and (src != dst or (0, col) not in [i for _, i in chosen]):
        v = float(per)  # use up the trough column exactly
    else:
        v = _cap(vclass, v, per)
        for w, idx in chosen:
            v = _cap(vclass, v, st.room(dst, idx))
    st.vol[src][(0, col)] -= fr(v) * k
    for w, idx in chosen:
        st.vol[dst][idx] += fr(v)
    ids = [w for w, _ in chosen]
    dw_arg, d_shape = shape_wells(rng, ids)
    kw = {}
    if rng.random() < 0.6:
        kw["multi_disp"] = rng.choice([1, 2, 3, 6, 12])
    if rng.random() < 0.3:
        kw["diti_reuse"] = rng.choice([1, 2, 4])
    if rng.random() < 0.4:
        kw["direction"] = rng.choice(["left_to_right", "right_to_left"])
    if rng.random() < 0.4:
        kw["liquid_class"] = rng.choice(LCS)
    if rng.random() < 0.5:
        kw["label"] = rng.choice([l for l in LABELS if l is not None])
    if rng.random() < 0.15:
        kw["src_rack_type"] = "Trough 100ml"
        kw["dst_rack_id"] = "B7"
    return {
        "op": "distribute",
        "src": src,
        "col": col,
        "dst": dst,
        "dw": dw_arg,
        "vol": narrow_scalar(rng, v),
        "kw": kw,
        "_dst": ids,
        "_shapes": [d_shape, mode],
    }


def gen_manual(rng, st: GenState, vclass):
    """aspirate from one labware + dispense of the same volumes into another (one op for the runner)."""
    names = list(st.descs)
    src, dst = rng.choice(names), rng.choice(names)
    sd, dd = st.descs[src], st.descs[dst]
    sids, dids = all_well_ids(sd), all_well_ids(dd)
    n = rng.choice([1, 1, 2, 3, 4, 8])
    sw = [rng.choice(sids) for _ in range(n)]
    dw = [rng.choice(dids) for _ in range(n)]
    vols, removed, added = [], {}, {}
    m = st.wl["max_volume"]
    for (sid, sidx), (did, didx) in zip(sw, dw):
        v = pick_volume(rng, vclass, m, allow_split=False)
        v = _cap(vclass, v, min(st.avail(src, sidx) - removed.get(sidx, 0), st.room(dst, didx) - added.get(didx, 0), fr(m) + Fraction(11, 1000)))
        vols.append(v)
        removed[sidx] = removed.get(sidx, 0) + fr(v)
        added[didx] = added.get(didx, 0) + fr(v)
    for i, x in removed.items():
        st.vol[src][i] -= x
    for i, x in added.items():
        st.vol[dst][i] += x
    s_ids, d_ids = [w for w, _ in sw], [w for w, _ in dw]
    sw_arg, s_shape = shape_wells(rng, s_ids)
    dw_arg, d_shape = (_like(rng, d_ids, s_shape) if s_shape.startswith("2d") else shape_wells(rng, d_ids))
    if d_shape == "scalar" and n > 1:
        dw_arg, d_shape = list(d_ids), "list"
    if s_shape == "scalar" and n > 1:
        sw_arg, s_shape = list(s_ids), "list"
    vol_arg, v_shape = shape_volumes(rng, vols, s_shape if s_shape.startswith("2d") else None)
    return {
        "op": "manual",
        "src": src,
        "sw": sw_arg,
        "dst": dst,
        "dw": dw_arg,
        "vol": vol_arg,
        "label": rng.choice(LABELS),
        "kw": gen_kwargs(rng, 1),
        "_triples": [[s, d, v] for s, d, v in zip(s_ids, d_ids, vols)],
        "_shapes": [s_shape, d_shape, v_shape],
        "known": rng.random() < 0.85,  # False: dispense without compositions (taint path)
        "then": rng.choice(["wash", "flush", "commit", "none"]),
    }


def gen_lone_aspirate(rng, st: GenState, vclass):
    name = rng.choice(list(st.descs))
    d = st.descs[name]
    ids = all_well_ids(d)
    n = rng.choice([1, 2, 4])
    ws = [rng.choice(ids) for _ in range(n)]
    vols, removed = [], {}
    for w, idx in ws:
        v = pick_volume(rng, vclass, st.wl["max_volume"], allow_split=False)
        v = _cap(vclass, v, min(st.avail(name, idx) - removed.get(idx, 0), fr(st.wl["max_volume"]) + Fraction(11, 1000)))
        vols.append(v)
        removed[idx] = removed.get(idx, 0) + fr(v)
    for i, x in removed.items():
        st.vol[name][i] -= x
    w_arg, shp = shape_wells(rng, [w for w, _ in ws])
    if shp == "scalar" and n > 1:
        w_arg = [w for w, _ in ws]
    v_arg, _ = shape_volumes(rng, vols, shp if shp.startswith("2d") else None)
    return {"op": "aspirate_flush", "lw": name, "wells": w_arg, "vol": v_arg, "label": rng.choice(LABELS),
            "_pairs": [[w, v] for (w, _), v in zip(ws, vols)]}


def gen_program(rng, n_ops=None, device=None, vclass=None, mix=None, **wt_kw):
    vclass = vclass or rng.choice(VOLUME_CLASSES)
    wl = gen_worklist_cfg(rng, device)
    mix = mix or {"transfer": 5, "distribute": 2, "manual": 2, "aspirate_flush": 1}
    need_trough = rng.random() < 0.6
    wt = gen_worktable(rng, vclass=vclass if vclass != "dirty" else rng.choice(VOLUME_CLASSES), need_trough=need_trough, **wt_kw)
    st = GenState(wt, wl)
    n_ops = n_ops or rng.randint(1, 8)
    ops = []
    kinds = [k for k, w in mix.items() for _ in range(w)]
    for _ in range(n_ops):
        k = rng.choice(kinds)
        op = None
        if k == "transfer":
            op = gen_transfer(rng, st, vclass)
        elif k == "distribute":
            op = gen_distribute(rng, st, vclass)
        elif k == "manual":
            op = gen_manual(rng, st, vclass)
        elif k == "aspirate_flush":
            op = gen_lone_aspirate(rng, st, vclass)
        if op is None:
            op = gen_transfer(rng, st, vclass)
        ops.append(op)
    return {"worklist": wl, "worktable": wt, "ops": ops, "grid": vclass in GRID_CLASSES, "vclass": vclass}
