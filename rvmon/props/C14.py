"""C14 - a DilutionPlan is self-consistent and executable as planned."""
from __future__ import annotations

import math
import zlib
from fractions import Fraction

import numpy as np

from .. import attach
from ..attach import fr, near
from ..core import enc

ID = "C14"
TITLE = "A DilutionPlan is self-consistent and executable as planned"
LEVEL = "exploration"
TECHNIQUE = (
    "runtime monitoring: exact rational re-computation of every plan from its instruction list (integrality, bounds, "
    "source order, per-row volume budget of every source column, concentrations, stock/diluent totals) and execution of "
    "plans with to_worklist on exactly sufficient labware under the Labware add/remove hook oracles, comparing tracked "
    "composition, trough consumption and final well volumes with the exact model"
)
ATTACH = ("labware", "worklist")
HOOK_RULES = ("ledger_exact", "unaddressed_unchanged", "max_after_add", "min_after_remove", "remove_keeps_composition",
              "monitor_error")
RULE = (
    "cases = DilutionPlan parameter sets (R 1..16, C 1..24, log/linear, xmax 1e-3..1e3, xmin = xmax/10^(0.1..6), stock = "
    "xmax x {1, 1.0000001, 1.5, 2, 10, 100}, scalar and per-column vmax 100..2000, min_transfer 1..50) biased towards "
    "steep series in which several columns are diluted from the same source column and (5 %) towards flat series from a "
    "strong stock with coarsely rounded stock transfers, must-refuse parameter sets (stock < "
    "xmax, vmax of wrong length, invalid mode), and for one case in 10 (quick) / 15 (thorough) an execution configuration (device, integer "
    "and non-integer worklist max_volume, trough shapes with fewer virtual rows than R and non-zero columns, larger "
    "plates, optional destination plate, mixing parameters, pre/post hooks); a case is non-trivial when a plan with at "
    "least one serial-dilution column (dilution_steps >= 1) is returned; distinct = distinct parameter/configuration hashes"
)
ASSUMPTIONS = [
    "vmax values are mostly whole microlitres; non-integer vmax is generated for the planner rules (v <= vmax), the executed stream uses whole numbers",
    "execution uses empty plates with min_volume = 0 and troughs holding at least v_stock / v_diluent above their "
    "min_volume; v_destination never exceeds what the plan leaves in any well",
    "the emitted worklist records are not judged here (C01/C09 do that); only the tracked labware state is",
    "the composition of a well that ends up exactly empty is not compared",
    "for a parameter set that is refused the only demand is that the exception is a ValueError; whether a refused set "
    "could have been planned differently is not decided",
]

D11 = "C14.plan_overdraw"

EXEC_EVERY = {"quick": 10, "thorough": 15}  # one case in n (at random) carries an execution configuration
EXEC_MAX_WELLS = {"quick": 32, "thorough": 48}  # R*C of executed plans (R <= 8, C <= 12)
REL = 1e-9


# ---------------------------------------------------------------------------------------------
# generation
# ---------------------------------------------------------------------------------------------
def n_cases(tier):
    return 14000 if tier == "quick" else 1000000


def _gen_vmax(rng, C, small=False):
    pool = [100, 100, 150, 200, 250, 300, 500, 1000] if small else [100, 100, 150, 200, 300, 500, 1000, 1500, 2000]
    hi = 1000 if small else 2000
    kind = rng.choice(["scalar", "scalar", "scalar1", "list", "list", "list_same"])
    if rng.random() < 0.06:
        # column volumes that are no whole number of microlitres (187.5 uL, a measured 250.7 uL)
        x = rng.choice([187.5, 250.7, 100.6, 99.5, 333.3, 15.9 + 100, rng.randint(100, hi) + rng.choice([0.5, 0.25, 0.7, 0.9]),
                        187.537, 1000 / 3, 250.125, 99.999, rng.randint(100, hi) + rng.choice([0.005, 0.123, 0.3337])])
        return x if rng.random() < 0.6 else [x] + [rng.choice(pool) for _ in range(C - 1)]
    if kind == "scalar":
        return rng.choice(pool + [rng.randint(100, hi)])
    if kind == "scalar1":
        return [rng.choice(pool)]
    if kind == "list_same":
        return [rng.choice(pool)] * C
    style = rng.choice(["pool", "rand", "narrow", "alternating"])
    if style == "pool":
        return [rng.choice(pool) for _ in range(C)]
    if style == "rand":
        return [rng.randint(100, hi) for _ in range(C)]
    if style == "narrow":
        base = rng.choice(pool)
        return [max(100, min(hi, base + rng.randint(-40, 40))) for _ in range(C)]
    a, b = rng.choice(pool), rng.choice(pool)
    return [a if i % 2 == 0 else b for i in range(C)]


def _gen_params(rng, small, tier="quick"):
    if small:
        R = rng.choice([1, 1, 2, 2, 3, 3, 4, 4, 5, 6, 8, rng.randint(1, 8)])
        C = rng.choice([1, 2, 3, 3, 4, 4, 5, 6, 6, 8, 10, 12, rng.randint(1, 12)])
        if R * C > EXEC_MAX_WELLS[tier]:
            # the hook oracles re-predict the whole plate on every aspirate/dispense: cost ~ (R*C)^2
            if rng.random() < 0.5:
                C = max(1, EXEC_MAX_WELLS[tier] // R)
            else:
                R = max(1, EXEC_MAX_WELLS[tier] // C)
    else:
        R = rng.choice([1, 1, 2, 3, 4, 6, 8, 8, 12, 16, rng.randint(1, 16), rng.randint(1, 16)])
        C = rng.choice([1, 2, 3, 4, 6, 8, 12, 12, 16, 24, 24, rng.randint(1, 24), rng.randint(1, 24)])
    mode = rng.choice(["log", "log", "log", "linear"])
    xmax = 10 ** rng.uniform(-3, 3)
    if rng.random() < 0.15:
        xmax = float(rng.choice([0.001, 0.03, 1, 10, 30, 123, 1000]))
    decades = rng.uniform(0.1, 6)
    if rng.random() < 0.35:
        # steep series: about 0.15 .. 1 decade per column, so that several columns hang on one source column
        decades = min(6.0, max(0.1, C * rng.uniform(0.15, 1.0)))
    xmin = xmax / 10 ** decades
    stock = xmax * rng.choice([1, 1, 1.0000001, 1.5, 2, 2, 10, 100])
    min_transfer = rng.choice([1, 2, 5, 10, 10, 20, 20, 25, 50, 50, rng.randint(1, 50), rng.choice([2.5, 12.5, 33.3])])
    if small and rng.random() < 0.6:
        # executed stream: fewer hopeless requests
        stock = xmax * rng.choice([1, 1, 1.0000001, 1.5, 2, 2, 10])
        min_transfer = rng.choice([1, 2, 5, 10, 10, 20, 25])
    vmax = _gen_vmax(rng, C, small)
    if rng.random() < 0.05:
        # flat series from a strong stock with a small min_transfer: the few-microlitre stock transfers are rounded
        # coarsely, so the achieved concentration of a stock column can fall below the target of a later column
        if not small:
            R = rng.choice([1, 1, 2, 3])
        xmin = xmax / 10 ** rng.uniform(0.1, 0.4)
        stock = xmax * rng.choice([10, 100, 100])
        min_transfer = rng.choice([1, 2, 3, 5, 10])
        vmax = [rng.randint(100, 1000 if small else 2000) for _ in range(C)]
    if rng.random() < 0.07 and C >= 2:
        # replicate columns (xmin == xmax) from a stock of a round multiple, the later columns smaller than the first:
        # their stock transfer drops below min_transfer, so they are prepared from an earlier column - with
        # quotients that sit exactly on the limits
        xmin = xmax = float(rng.choice([30, 10, 100, 3, 1000, 7, 0.3, 2.5]))
        stock = xmax * rng.choice([2, 2, 4, 10])
        first = rng.choice([1000, 500, 400])
        vmax = [first] + [rng.choice([30, 40, 50, 100, first]) for _ in range(C - 1)]
        min_transfer = rng.choice([20, 20, 25, 10])
        mode = rng.choice(["log", "log", "linear"])
        if rng.random() < 0.5:
            # ... and those later columns hold no whole number of microlitres (a source that is almost as concentrated as
            # the target: the whole-microlitre transfer that reaches the target is the column volume rounded UP)
            vmax = [first] + [rng.choice([50.5, 40.7, 100.9, 30.25, 60.5, 100.1, first]) for _ in range(C - 1)]
            min_transfer = rng.choice([20, 25, 30, 30, 50])
            if rng.random() < 0.4:
                xmin = xmax * rng.choice([0.99, 0.995, 0.98])
    if rng.random() < 0.04:
        # a very long series: nine to eleven decades below the stock (fractions of 1e-9 ... 1e-11 in the last columns)
        C = max(C, rng.choice([6, 7, 8]))
        if small:
            R = min(R, max(1, EXEC_MAX_WELLS[tier] // C))
        decades = rng.uniform(8.5, 11)
        xmin = xmax / 10 ** decades
        stock = xmax * rng.choice([1, 2, 10])
        vmax = rng.choice([1000, 1000, 500])
        min_transfer = rng.choice([5, 10, 10, 20])
        mode = "log"
    if rng.random() < 0.012:
        # a column volume just above x.5 uL, a stock at the highest concentration and a min_transfer between the
        # whole microlitres below and above that volume: the only whole-microlitre transfer that reaches xmax is
        # larger than the column, the largest one that fits is smaller than min_transfer
        x = rng.choice([187.5, 250.7, 99.5, 100.6, rng.randint(100, 1000) + rng.choice([0.5, 0.7, 0.9])])
        vmax = x if rng.random() < 0.6 else [x] + [rng.choice([100, 200, 300]) for _ in range(C - 1)]
        stock = xmax * rng.choice([1, 1, 1.0000001])
        min_transfer = int(math.floor(x)) + 1
    return {"xmin": xmin, "xmax": xmax, "R": R, "C": C, "stock": stock, "mode": mode, "vmax": vmax, "min_transfer": min_transfer}


def _gen_trough(rng, R):
    vr = rng.choice([1, 2, 3, 4, 8, max(1, R - 1), max(1, R // 2), R, min(16, R + 2), rng.randint(1, 16)])
    cols = rng.choice([1, 1, 2, 3, 4])
    return {"virtual_rows": vr, "columns": cols, "column": rng.randrange(cols), "min_volume": rng.choice([0, 0, 0, 100, 55.5]),
            "margin": rng.choice([0, 0, 0.5, 1000, 12345])}


def _gen_exec(rng, p):
    R, C = p["R"], p["C"]
    vm = p["vmax"] if isinstance(p["vmax"], list) else [p["vmax"]]
    top = max(vm) if vm else 1000
    mv = rng.choice([950, 950, 200, 100, 333.3, 99.99, 250.5, 1000, 500, 64, 50, 75.25])
    if top / mv > 12:
        mv = rng.choice([950, 333.3, 200, 500])
    if top <= 400 and R * C <= 12 and rng.random() < 0.25:
        mv = rng.choice([7.7, 3.3, 12.7, 0.7 if top <= 100 else 7.7])  # a small tip with a step limit that is no binary fraction
    ex = {
        "device": rng.choice(["evo", "fluent"]),
        "max_volume": mv,
        "diti_mode": rng.random() < 0.2,
        "stock": _gen_trough(rng, R),
        "diluent": _gen_trough(rng, R),
        "same_trough": rng.random() < 0.08,
        "plate": {"extra_rows": rng.choice([0, 0, 0, 1, 2]), "extra_cols": rng.choice([0, 0, 0, 1, 2]),
                  "head": rng.choice([0, 0, 0.5, 1000])},
        "dest": None,
        "mix": {"threshold": rng.choice([0.05, 0.05, 0.0, 0.2, 0.5, 1.0]), "wash": rng.choice([1, 2, 2, 3, 4, "flush", "reuse"]),
                "repeat": rng.choice([0, 1, 2, 2, 3]), "volume": rng.choice([0.8, 0.8, 0.75, 0.5, 0.1, 1.0, 0.333])},
        "hooks": rng.choice([None, None, None, "pre", "post", "both", "switch"]),
        "defaults": rng.random() < 0.1,
    }
    if rng.random() < 0.5:
        ex["dest"] = {"frac": rng.choice([1.0, 1.0, 0.5, 0.25, 0.37, 0.01]), "whole": rng.random() < 0.6,
                      "extra_rows": rng.choice([0, 0, 1, 2]), "extra_cols": rng.choice([0, 0, 2]), "head": rng.choice([0, 0, 100])}
    return ex


def gen_case(rng, tier, index):
    with_exec = rng.random() * EXEC_EVERY[tier] < 1  # not index-periodic: shards take index % nshards
    p = _gen_params(rng, small=with_exec, tier=tier)
    case = {"kind": "plan", "params": p, "exec": None}
    if with_exec:
        case["exec"] = _gen_exec(rng, p)
        if isinstance(p.get("vmax"), list) and len(p["vmax"]) == p["C"] and rng.random() < 0.25:
            case["vmax_form"] = rng.choice(["float_array", "int16", "uint16", "int32", "uint8", "uint8"])
        return case
    r = rng.random()
    if r < 0.03:
        case["kind"] = "refuse_stock"
        p["stock"] = p["xmax"] * rng.choice([0.5, 0.9, 0.999999, 0.01])
    elif r < 0.06:
        case["kind"] = "refuse_vmax_len"
        C = p["C"]
        n = rng.choice([k for k in (0, 2, C - 1, C + 1, 2 * C, C + 5) if k != C and k != 1])
        p["vmax"] = [rng.choice([100, 500, 1000]) for _ in range(n)]
    elif r < 0.09:
        case["kind"] = "refuse_mode"
        p["mode"] = rng.choice(["Log", "LOG", "lin", "Linear", "", "exp", "log ", "geometric", None, 0])
    elif r < 0.11:
        # the two ends given the wrong way round: whatever comes back must still be a consistent plan
        p["xmin"], p["xmax"] = p["xmax"], p["xmin"]
        case["swapped_ends"] = True
        if p["xmin"] > p["xmax"] and rng.random() < 0.6:
            p["stock"] = (p["xmin"] * p["xmax"]) ** 0.5  # a stock between the two ends
    if isinstance(p.get("vmax"), list) and len(p["vmax"]) == p["C"] and case["kind"] == "plan" and rng.random() < 0.2:
        # the per-column volumes as the caller's own array (narrow integers where they fit), which the caller
        # keeps using for other things afterwards
        case["vmax_form"] = rng.choice(["float_array", "int16", "uint16", "int32"])
    return case


# ---------------------------------------------------------------------------------------------
# exact model of a plan, from the instruction list alone
# ---------------------------------------------------------------------------------------------
class Plan:
    """What the instruction list says, in exact arithmetic.  ``structure_ok`` is False when the list is
    not a well-formed preparation order (then nothing numeric is derived from it)."""

    def __init__(self, instructions, R, C, vmax, stock):
        self.R, self.C = R, C
        self.vmax = vmax  # list of C floats (the INPUT of the constructor)
        self.problems = []
        self.vol = {}  # column -> list of R floats
        self.src = {}  # column -> "stock" | int
        self.steps = {}
        self.order = []
        self.x = {}  # column -> list of R Fractions
        self.draws = {}  # source column -> list of R Fractions (sum of planned draws)
        self.users = {}  # source column -> list of target columns
        self._read(instructions, stock)

    def _read(self, instructions, stock):
        R, C = self.R, self.C
        P = self.problems
        for pos, ins in enumerate(instructions):
            if not (isinstance(ins, (tuple, list)) and len(ins) == 4):
                P.append(f"instruction {pos} is not a 4-tuple")
                return
            col, steps, src, vols = ins
            if isinstance(col, bool) or not isinstance(col, (int, np.integer)) or not 0 <= col < C:
                P.append(f"instruction {pos}: column {col!r} is not an index 0..{C - 1}")
                return
            col = int(col)
            if col in self.src:
                P.append(f"column {col} is prepared twice")
                return
            try:
                v = [float(x) for x in np.asarray(vols).tolist()]
            except Exception:
                P.append(f"instruction {pos}: volumes are not a 1-D sequence of numbers")
                return
            if len(v) != R:
                P.append(f"instruction {pos}: {len(v)} volumes for {R} rows")
                return
            if isinstance(src, str):
                if src != "stock":
                    P.append(f"instruction {pos}: unknown source {src!r}")
                    return
                want_steps = 0
            else:
                if isinstance(src, bool) or not isinstance(src, (int, np.integer)):
                    P.append(f"instruction {pos}: source {src!r} is neither 'stock' nor a column index")
                    return
                src = int(src)
                if src not in self.src:
                    P.append(f"instruction {pos}: column {col} is prepared from column {src}, which is not prepared earlier")
                    return
                want_steps = self.steps[src] + 1
            if isinstance(steps, bool) or not isinstance(steps, (int, np.integer)) or int(steps) != want_steps:
                P.append(f"instruction {pos}: dilution_steps {steps!r}, expected {want_steps}")
                return
            self.src[col], self.steps[col], self.vol[col] = src, int(steps), v
            self.order.append(col)
        # numeric part
        S = fr(stock)
        for col in self.order:
            vm = fr(self.vmax[col])
            src = self.src[col]
            if src == "stock":
                self.x[col] = [S * fr(v) / vm for v in self.vol[col]]
            else:
                self.x[col] = [self.x[src][r] * fr(self.vol[col][r]) / vm for r in range(R)]
                d = self.draws.setdefault(src, [Fraction(0)] * R)
                self.draws[src] = [d[r] + fr(self.vol[col][r]) for r in range(R)]
                self.users.setdefault(src, []).append(col)

    @property
    def structure_ok(self):
        return not self.problems

    def overdrawn(self):
        """[(source column, row, drawn, held)] where the planned draws exceed what the column holds."""
        out = []
        for s, d in self.draws.items():
            held = fr(self.vmax[s])
            for r in range(self.R):
                if d[r] > held:
                    out.append((s, r, float(d[r]), float(held)))
        return out

    def remaining(self, col, r):
        return fr(self.vmax[col]) - self.draws.get(col, [Fraction(0)] * self.R)[r]

    def v_stock(self):
        return sum((fr(v) for c in self.order if self.src[c] == "stock" for v in self.vol[c]), Fraction(0))

    def v_all(self):
        return sum((fr(v) for c in self.order for v in self.vol[c]), Fraction(0))


def _rel_eq(a, exact, rel=REL):
    """|a - exact| <= rel * max(|a|, |exact|): purely relative (concentrations span many decades)."""
    try:
        a = float(a)
    except Exception:
        return False
    return near(a, exact, rel=rel, abs_=0.0)


def _expand_vmax(p):
    v = p["vmax"]
    if isinstance(v, list):
        if len(v) == 1:
            return [float(v[0])] * p["C"]
        return [float(x) for x in v]
    return [float(v)] * p["C"]


def _instr_json(plan):
    try:
        return [[enc(c), enc(s), enc(src), np.asarray(v).tolist()] for c, s, src, v in plan.instructions]
    except Exception:
        return repr(getattr(plan, "instructions", None))


# ---------------------------------------------------------------------------------------------
# plan-level oracle
# ---------------------------------------------------------------------------------------------
def judge_plan(ctx, case, plan):
    """Returns the exact model (or None when the instruction list is malformed) and whether the
    plan passed every plan-level rule except the volume budget."""
    p = case["params"]
    R, C = p["R"], p["C"]
    vmax = _expand_vmax(p)
    det = lambda extra=None: dict({"params": p, "instructions": _instr_json(plan)}, **(extra or {}))
    try:
        instructions = list(plan.instructions)
    except Exception as e:
        ctx.check("instructions_well_formed_and_sources_prepared_earlier", False, lambda: det({"problem": repr(e)}))
        return None, False
    M = Plan(instructions, R, C, vmax, p["stock"])
    # (5) a returned plan is complete: every column 0..C-1 exactly once
    try:
        cols = sorted(int(ins[0]) for ins in instructions)
    except Exception:
        cols = None
    complete = cols == list(range(C))
    ctx.check("returned_plan_prepares_every_column_once", complete, lambda: det({"columns": cols}))
    # (2) tuple layout, source prepared earlier, dilution_steps
    if not ctx.check("instructions_well_formed_and_sources_prepared_earlier", M.structure_ok, lambda: det({"problem": M.problems})):
        return None, False
    if not complete:
        return None, False
    ok_all = True
    # (1) whole microlitres within [min_transfer, vmax of the target column]
    mt = p["min_transfer"]
    bad_int, bad_lo, bad_hi = [], [], []
    for c in M.order:
        for r, v in enumerate(M.vol[c]):
            if not (math.isfinite(v) and v == math.floor(v)):
                bad_int.append((c, r, v))
            if not v >= mt:
                bad_lo.append((c, r, v))
            if not v <= vmax[c]:
                bad_hi.append((c, r, v, vmax[c]))
    ok_all &= ctx.check("transfer_volumes_are_whole_microlitres", not bad_int, lambda: det({"offending (column,row,v)": bad_int[:5]}))
    ok_all &= ctx.check("transfer_volume_at_least_min_transfer", not bad_lo, lambda: det({"offending (column,row,v)": bad_lo[:5]}))
    ok_all &= ctx.check("transfer_volume_at_most_vmax_of_target", not bad_hi, lambda: det({"offending (column,row,v,vmax)": bad_hi[:5]}))
    # (4) reported quantities
    x = None
    try:
        x = np.asarray(plan.x, dtype=float)
    except Exception:
        pass
    shape_ok = x is not None and x.shape == (R, C)
    ok_all &= ctx.check("x_has_shape_R_by_C", shape_ok, lambda: det({"shape": None if x is None else list(x.shape)}))
    if shape_ok:
        bad = [(r, c, float(x[r, c]), float(M.x[c][r])) for c in range(C) for r in range(R) if not _rel_eq(x[r, c], M.x[c][r])]
        ok_all &= ctx.check("reported_concentrations_equal_those_implied_by_instructions", not bad,
                            lambda: det({"offending (row,column,reported,exact)": bad[:5], "x": x.tolist()}))
        allx = [M.x[c][r] for c in range(C) for r in range(R)]
        # xmin / xmax / max_steps / the formula behind v_diluent are not part of the statement: observed only
        if _rel_eq(getattr(plan, "xmin", None), min(allx)) and _rel_eq(getattr(plan, "xmax", None), max(allx)):
            ctx.count("observed:xmin_xmax_are_extremes_of_x")
        else:
            ctx.count("observed:xmin_xmax_differ_from_extremes_of_x")
    vs = M.v_stock()
    ok_all &= ctx.check("v_stock_is_sum_of_stock_transfers", _rel_eq(getattr(plan, "v_stock", None), vs),
                        lambda: det({"v_stock": enc(getattr(plan, "v_stock", None)), "exact": float(vs)}))
    vd = R * sum((fr(v) for v in vmax), Fraction(0)) - vs
    try:
        ctx.count("observed:v_diluent_is_total_volume_minus_v_stock" if near(_f(getattr(plan, "v_diluent", None)), vd)
                  else "observed:v_diluent_other_formula")
    except Exception:
        ctx.count("observed:v_diluent_unreadable")
    ms = max(M.steps.values())
    ctx.count("observed:max_steps_is_deepest_dilution" if getattr(plan, "max_steps", None) == ms else "observed:max_steps_differs")
    # (3) the volume budget of every source column (known defect D11: the planner never looks at it)
    over = M.overdrawn()
    ctx.check("plan_draws_at_most_what_source_column_holds", not over,
              lambda: det({"overdrawn (source column,row,drawn,held)": over[:5],
                           "targets_per_source": {str(s): t for s, t in M.users.items()}}), key=D11)
    return M, ok_all


def _f(x):
    try:
        return float(x)
    except Exception:
        return float("nan")


# ---------------------------------------------------------------------------------------------
# execution
# ---------------------------------------------------------------------------------------------
def _build_trough(name, t, need, comp, other=None):
    """A trough whose column ``t['column']`` is called ``comp`` and holds ``need`` above min_volume."""
    import robotools

    cols = t["columns"]
    names = [f"{name}-other{c}" for c in range(cols)]
    init = [float(t["min_volume"]) + 777.0] * cols  # the other columns hold something else
    names[t["column"]] = comp
    init[t["column"]] = float(t["min_volume"]) + need + float(t["margin"])
    if other is not None:
        ocol, oname, oneed = other
        names[ocol] = oname
        init[ocol] = float(t["min_volume"]) + oneed + float(t["margin"])
    names = [n if v > 0 else None for n, v in zip(names, init)]  # robotools refuses names for empty columns
    if (t["virtual_rows"] + cols + len(name)) % 3 == 0:
        # the legacy (warning-only) construction of a trough: a Labware with virtual rows
        cn = {f"A{c + 1:02d}": n for c, n in enumerate(names) if n is not None}
        return robotools.Labware(name, 1, cols, min_volume=float(t["min_volume"]), max_volume=max(init) + 1000.0,
                                 initial_volumes=init, virtual_rows=t["virtual_rows"], component_names=cn)
    return robotools.Trough(name, t["virtual_rows"], cols, min_volume=float(t["min_volume"]), max_volume=max(init) + 1000.0,
                            initial_volumes=init, column_names=names)


def _beyond_limit(ev):
    """(exact excess over the limit of the refused add/remove event, noise band) or None."""
    lw = ev["labware"]
    worst = None
    for w, v in zip(ev["wells"], ev["volumes"]):
        idx = attach.real_index(lw, w)
        if idx is None:
            return None
        pre = fr(ev["pre"][idx])
        if ev["kind"] == "add":
            lim = fr(lw.max_volume)
            excess = pre + fr(v) - lim
        else:
            lim = fr(lw.min_volume)
            excess = lim - (pre - fr(v))
        band = Fraction(REL) * max(abs(lim), abs(pre), 1)
        if worst is None or excess > worst[0]:
            worst = (excess, band)
    return worst


def execute(ctx, case, plan, M, plan_ok):
    import robotools
    from robotools.liquidhandling.exceptions import VolumeUnderflowError, VolumeViolationException

    p, ex = case["params"], case["exec"]
    R, C = p["R"], p["C"]
    vmax = M.vmax
    over = M.overdrawn()
    v_stock, v_all = M.v_stock(), M.v_all()
    total = R * sum((fr(v) for v in vmax), Fraction(0))
    need_s, need_d = float(v_stock), float(total - v_stock)  # v_stock / v_diluent as implied by the instructions
    ts, td = ex["stock"], ex["diluent"]
    same = bool(ex.get("same_trough")) and ts["columns"] >= 2
    if same:
        dcol = (ts["column"] + 1) % ts["columns"]
        stock_lw = _build_trough("Troughs", ts, need_s, "S", other=(dcol, "D", need_d))
        dil_lw = stock_lw
    else:
        dcol = td["column"]
        stock_lw = _build_trough("StockTrough", ts, need_s, "S")
        dil_lw = _build_trough("DiluentTrough", td, need_d, "D")
    scol = ts["column"]
    pl = ex["plate"]
    plate = robotools.Labware("Dilution", min(26, R + pl["extra_rows"]), C + pl["extra_cols"], min_volume=0,
                              max_volume=max(vmax) + float(pl["head"]))
    # destination: v_destination never exceeds what the plan leaves in any well
    dest, v_dest = None, None
    if ex["dest"] is not None:
        rem = min(M.remaining(c, r) for c in range(C) for r in range(R))
        vd = float(rem) * ex["dest"]["frac"]
        if ex["dest"]["whole"]:
            vd = float(math.floor(vd))
        if rem > 0 and 0 < vd <= float(rem):
            v_dest = vd
            dest = robotools.Labware("Destination", min(26, R + ex["dest"]["extra_rows"]), C + ex["dest"]["extra_cols"], min_volume=0,
                                     max_volume=v_dest + float(ex["dest"]["head"]))
            ctx.count("exec:with_destination")
        else:
            ctx.count("exec:destination_skipped_nothing_left")
    cls = {"evo": robotools.EvoWorklist, "fluent": robotools.FluentWorklist}[ex["device"]]
    wl = cls(None, max_volume=ex["max_volume"], auto_split=True, diti_mode=ex["diti_mode"])
    wl2 = cls(None, max_volume=ex["max_volume"], auto_split=True, diti_mode=ex["diti_mode"])
    calls = {"pre": [], "post": []}

    def pre_hook(col, w):
        calls["pre"].append(int(col))
        w.comment(f"pre-mix {col}")
        if ex["hooks"] == "switch" and col == M.order[len(M.order) // 2]:
            return wl2
        return None

    def post_hook(col, w):
        calls["post"].append(int(col))
        return None

    kw = dict(worklist=wl, stock=stock_lw, stock_column=scol, diluent=dil_lw, diluent_column=dcol, dilution_plate=plate)
    if dest is not None:
        kw.update(destination_plate=dest, v_destination=v_dest)
    if ex["hooks"] in ("pre", "both", "switch"):
        kw["pre_mix_hook"] = pre_hook
    if ex["hooks"] in ("post", "both"):
        kw["post_mix_hook"] = post_hook
    mix = ex["mix"]
    if not ex.get("defaults"):
        kw.update(mix_threshold=mix["threshold"], mix_wash=mix["wash"], mix_repeat=mix["repeat"], mix_volume=mix["volume"])
    pre_s = np.array(stock_lw.volumes, dtype=float, copy=True)
    pre_d = np.array(dil_lw.volumes, dtype=float, copy=True)
    exc = None
    att = attach.current()
    att.events.clear()
    att.keep_events = True
    try:
        plan.to_worklist(**kw)
    except attach.MonitorAbort:
        raise
    except Exception as e:
        exc = e
    finally:
        att.keep_events = False
    refused = [ev for ev in att.events if ev.get("exc") is not None]
    att.events.clear()
    beyond = None  # by how much the refused elementary call would have crossed the limit (exact), and the band
    if isinstance(exc, VolumeViolationException) and refused and refused[-1]["exc"] is exc:
        beyond = _beyond_limit(refused[-1])
    if beyond is not None and 0 <= beyond[0] <= beyond[1]:
        # a limit met exactly (well emptied / filled to the brim) while non-integer split steps carry float noise
        # (99.99 x 3 + 99.03000000000003): both outcomes are legitimate (DESIGN.md 1.5, rules 2 and 5) - not judged
        ctx.count("exec:float_noise_at_exact_limit_not_judged")
        return
    ctx.count("executions")
    ctx.count("executions:" + ex["device"])
    ctx.count("exec:max_volume_" + ("integer" if float(ex["max_volume"]).is_integer() else "noninteger"))
    ctx.feature("exec_max_volume", ex["max_volume"])
    ctx.feature("exec_hooks", str(ex["hooks"]))
    ctx.feature("exec_mix", f"{mix['repeat']}x{mix['volume']}@{mix['threshold']}/{mix['wash']}" if not ex.get("defaults") else "defaults")
    if ts["virtual_rows"] < R or td["virtual_rows"] < R:
        ctx.count("exec:trough_with_fewer_rows_than_R")
    if scol or dcol:
        ctx.count("exec:nonzero_trough_column")
    if pl["extra_rows"] or pl["extra_cols"]:
        ctx.count("exec:plate_larger_than_plan")
    if same:
        ctx.count("exec:stock_and_diluent_in_one_trough")
    if any(fr(v) > fr(ex["max_volume"]) for c in M.order for v in M.vol[c]) or max(vmax) > ex["max_volume"]:
        ctx.count("exec:split_transfers_needed")
    det = lambda extra=None: dict({"params": p, "exec": ex, "instructions": _instr_json(plan), "raised": repr(exc),
                                   "v_destination": v_dest}, **(extra or {}))
    if exc is not None:
        underflow_on_plate = (isinstance(exc, VolumeUnderflowError) and beyond is not None and beyond[0] > beyond[1]
                              and refused[-1]["labware"] is plate and refused[-1]["kind"] == "remove")
        if over and underflow_on_plate:
            ctx.count("exec:overdrawn_plan_underflows")
            ctx.violation("execution_of_returned_plan_completes", det({"overdrawn (source column,row,drawn,held)": over[:5]}), key=D11)
        else:
            ctx.check("execution_of_returned_plan_completes", False, det)
        return
    ctx.check("execution_of_returned_plan_completes", True)
    if over:
        # no exception although more is drawn than the column holds: the volume checks below will say so
        ctx.count("exec:overdrawn_plan_not_refused")
    # ---- concentrations by composition tracking
    S = fr(p["stock"])

    def conc_bad(lw, skip_empty):
        comp = lw.composition or {}
        arr = comp.get("S")
        bad = []
        for c in range(C):
            for r in range(R):
                if skip_empty is not None and skip_empty(c, r):
                    ctx.count("exec:emptied_well_not_compared")
                    continue
                f = float(arr[r, c]) if arr is not None and arr.shape[0] > r and arr.shape[1] > c else 0.0
                got = fr(f) * S if math.isfinite(f) else None
                want = M.x[c][r]
                if got is None or abs(got - want) > Fraction(REL) * max(abs(got), abs(want)):
                    bad.append((r, c, f * float(S) if got is not None else f, float(want)))
        return bad

    final = {(c, r): M.remaining(c, r) - (fr(v_dest) if dest is not None else 0) for c in range(C) for r in range(R)}
    bad = conc_bad(plate, lambda c, r: final[(c, r)] <= 0)
    ctx.check("tracked_concentration_equals_reported_in_every_dilution_well", not bad,
              lambda: det({"offending (row,column,tracked,exact)": bad[:5]}))
    # ... and against plan.x itself (the statement compares tracking with the *reported* value)
    try:
        x = np.asarray(plan.x, dtype=float)
        arr = (plate.composition or {}).get("S")
        bad2 = [(r, c, float(arr[r, c]) * p["stock"], float(x[r, c])) for c in range(C) for r in range(R)
                if final[(c, r)] > 0 and not _rel_eq(x[r, c], fr(float(arr[r, c])) * S)]
    except Exception as e:
        bad2 = [repr(e)]
    ctx.check("tracked_concentration_equals_plan_x", not bad2, lambda: det({"offending (row,column,tracked,plan.x)": bad2[:5]}))
    if dest is not None:
        badd = conc_bad(dest, None)
        ctx.check("tracked_concentration_equals_reported_in_destination_plate", not badd,
                  lambda: det({"offending (row,column,tracked,exact)": badd[:5]}))
        dv = np.asarray(dest.volumes, dtype=float)
        badv = [(r, c, float(dv[r, c])) for c in range(C) for r in range(R) if not near(float(dv[r, c]), fr(v_dest))]
        ctx.check("destination_wells_hold_v_destination", not badv, lambda: det({"offending (row,column,volume)": badv[:5]}))
    # ---- consumption
    post_s = np.asarray(stock_lw.volumes, dtype=float)
    post_d = np.asarray(dil_lw.volumes, dtype=float)
    used_s = fr(pre_s[0, scol]) - fr(post_s[0, scol])
    used_d = fr(pre_d[0, dcol]) - fr(post_d[0, dcol])
    ctx.check("stock_consumption_equals_v_stock", near(float(used_s), fr(_f(plan.v_stock)), scale=float(pre_s[0, scol])) and
              near(float(used_s), v_stock, scale=float(pre_s[0, scol])),
              lambda: det({"consumed": float(used_s), "plan.v_stock": enc(plan.v_stock), "exact": float(v_stock)}))
    lim = fr(_f(plan.v_diluent))
    ctx.check("diluent_consumption_at_most_v_diluent", used_d <= lim + Fraction(REL) * max(abs(lim), 1),
              lambda: det({"consumed": float(used_d), "plan.v_diluent": enc(plan.v_diluent)}))
    ctx.count("exec:diluent_exactly_total_minus_all_transfers" if near(float(used_d), total - v_all, scale=float(total))
              else "exec:diluent_consumption_other")
    # ---- final volumes of the dilution wells
    pv = np.asarray(plate.volumes, dtype=float)
    badf = [(r, c, float(pv[r, c]), float(final[(c, r)])) for c in range(C) for r in range(R)
            if not near(float(pv[r, c]), final[(c, r)], scale=vmax[c])]
    ctx.check("final_volume_is_vmax_minus_draws_minus_v_destination", not badf,
              lambda: det({"offending (row,column,volume,expected)": badf[:5]}))
    if ex["hooks"]:
        ctx.count("exec:with_hooks")
        if ex["hooks"] == "switch":
            ctx.count("exec:hook_switched_worklist" if len(wl2) else "exec:hook_switch_without_records")


# ---------------------------------------------------------------------------------------------
# one case
# ---------------------------------------------------------------------------------------------
def run_case(ctx, case):
    import robotools

    p = case["params"]
    kind = case.get("kind", "plan")
    vm = p["vmax"]
    args = dict(xmin=p["xmin"], xmax=p["xmax"], R=p["R"], C=p["C"], stock=p["stock"], mode=p["mode"],
                vmax=list(vm) if isinstance(vm, list) else vm, min_transfer=p["min_transfer"])
    own = None
    if case.get("vmax_form") and isinstance(vm, list):
        form = case["vmax_form"]
        if form == "float_array":
            own = np.array(vm, dtype=float)
        elif all(float(x).is_integer() and 0 < x < {"int16": 32000, "uint16": 65000, "uint8": 256}.get(form, 2**31 - 1) for x in vm):
            own = np.array([int(x) for x in vm], dtype=getattr(np, form))
        if own is not None:
            args["vmax"] = own
            ctx.count("vmax_given_as_" + form)
    if case.get("swapped_ends"):
        ctx.count("ends_given_the_wrong_way_round")
    plan, exc = None, None
    try:
        plan = robotools.DilutionPlan(**args)
    except attach.MonitorAbort:
        raise
    except Exception as e:
        exc = e
    if own is not None:
        own[...] = 1  # the caller's array is the caller's: it is re-used for something else now
    det = lambda: {"params": p, "raised": repr(exc), "instructions": _instr_json(plan) if plan is not None else None}
    if kind != "plan":
        ctx.count("must_refuse:" + kind)
        ctx.check("unmeetable_request_is_refused", exc is not None, det)
        if exc is not None:
            ctx.check("refusal_is_a_ValueError", isinstance(exc, ValueError), det)
        ctx.case(case, False)
        return
    ctx.count("mode:" + str(p["mode"]))
    ctx.count("vmax:" + ("per_column" if isinstance(vm, list) and len(vm) > 1 and len(set(vm)) > 1 else
                         "per_column_uniform" if isinstance(vm, list) and len(vm) > 1 else "scalar"))
    if exc is not None:
        ctx.check("refusal_is_a_ValueError", isinstance(exc, ValueError), det)
        ctx.count("refused:" + ("impossible" if "Impossible" in str(exc) else "other"))
        ctx.case(case, False)
        return
    ctx.count("plans_returned")
    ctx.count("plans_returned:" + str(p["mode"]))
    M, plan_ok = judge_plan(ctx, case, plan)
    if M is None:
        ctx.case(case, False)
        return
    serial = [c for c in M.order if M.src[c] != "stock"]
    shared = [s for s, t in M.users.items() if len(t) >= 2]
    if serial:
        ctx.count("plans_with_serial_dilution")
    if shared:
        ctx.count("plans_with_shared_source_column")
        ctx.feature("max_targets_per_source", max(len(t) for t in M.users.values()))
    if isinstance(vm, list) and len(set(vm)) > 1:
        ctx.count("plans_with_per_column_vmax")
    over = M.overdrawn()
    if over:
        ctx.count("plans_overdrawn")
    ctx.feature("max_steps", max(M.steps.values()))
    ctx.feature("RxC", f"{p['R']}x{p['C']}")
    if case.get("exec") is not None and plan_ok:
        execute(ctx, case, plan, M, plan_ok)
        if zlib.crc32(repr(sorted(p.items(), key=lambda kv: kv[0])).encode()) % 4 == 0:
            # a plan object is reusable: writing it to a second worklist (fresh labware) must work the same,
            # and judging it again must find the same plan
            ctx.count("plan_executed_a_second_time")
            M2, ok2 = judge_plan(ctx, case, plan)
            if M2 is not None and ok2:
                execute(ctx, case, plan, M2, ok2)
        if serial:
            ctx.count("executions_with_serial_dilution")
        if shared:
            ctx.count("executions_with_shared_source_column")
    ctx.case(case, bool(serial))


def classify_hook(rule, detail):
    return None


def gates(stats, tier):
    c = stats["counters"]
    r = []
    need = [
        "rule:instructions_well_formed_and_sources_prepared_earlier", "rule:returned_plan_prepares_every_column_once",
        "rule:transfer_volumes_are_whole_microlitres", "rule:transfer_volume_at_least_min_transfer",
        "rule:transfer_volume_at_most_vmax_of_target", "rule:plan_draws_at_most_what_source_column_holds",
        "rule:x_has_shape_R_by_C", "rule:reported_concentrations_equal_those_implied_by_instructions", 
        "rule:v_stock_is_sum_of_stock_transfers", 
        "rule:refusal_is_a_ValueError", "rule:unmeetable_request_is_refused",
        "rule:execution_of_returned_plan_completes", "rule:tracked_concentration_equals_reported_in_every_dilution_well",
        "rule:tracked_concentration_equals_plan_x", "rule:tracked_concentration_equals_reported_in_destination_plate",
        "rule:destination_wells_hold_v_destination", "rule:stock_consumption_equals_v_stock",
        "rule:diluent_consumption_at_most_v_diluent", "rule:final_volume_is_vmax_minus_draws_minus_v_destination",
        "rule:hook.ledger_exact", "rule:hook.unaddressed_unchanged", "rule:hook.max_after_add", "rule:hook.min_after_remove",
        "rule:hook.remove_keeps_composition",
        "plans_with_shared_source_column", "plans_with_per_column_vmax", "plans_returned:log", "plans_returned:linear",
        "refused:impossible", "must_refuse:refuse_stock", "must_refuse:refuse_vmax_len", "must_refuse:refuse_mode",
        "exec:max_volume_integer", "exec:max_volume_noninteger", "exec:split_transfers_needed", "exec:with_destination",
        "exec:trough_with_fewer_rows_than_R", "exec:nonzero_trough_column", "exec:plate_larger_than_plan", "exec:with_hooks",
        "executions_with_serial_dilution", "executions_with_shared_source_column",
    ]
    for k in need:
        if not c.get(k):
            r.append(f"never evaluated/observed: {k}")
    n_exec = 100 if tier == "quick" else 2000
    for dev in ("evo", "fluent"):
        if c.get("executions:" + dev, 0) < n_exec:
            r.append(f"fewer than {n_exec} executions on {dev}: {c.get('executions:' + dev, 0)}")
    if stats["distinct_nontrivial"] < (50 if tier == "quick" else 1000):
        r.append("too few distinct non-trivial cases")
    return r
