"""C09 - every record is well-formed and carries exactly the arguments given."""
from __future__ import annotations

import math
from fractions import Fraction

import numpy as np

from .. import gwl
from ..attach import fr
from ..core import dec, enc

ID = "C09"
TITLE = "Every record is well-formed and carries exactly the arguments given"
LEVEL = "exploration"
TECHNIQUE = (
    "runtime monitoring: every appended record is parsed by an independent strict grammar and compared field by "
    "field with the arguments of the call; faulty arguments must raise with the record list unchanged"
)
ATTACH = ("labware", "worklist")
RULE = (
    "cases = single calls of comment, wash, decontaminate, flush, commit, set_diti (at start / after a break record / "
    "after a script break / elsewhere), aspirate_well, dispense_well, reagent_distribution and keyword pass-through of "
    "aspirate/dispense/transfer/distribute, with valid argument tuples (printable Latin-1 text of length 0..40, "
    "volumes over the admissible range, tips in every representation) or with one / several faulty fields (';' in "
    "each text field, rack label/id/type of 33..40 characters, negative / NaN / inf / > 7158278 / > max_volume volume, "
    "position None / str / negative / non-integer, invalid scheme, direction, excluded well, DiTi switch at a wrong "
    "place, decontamination in DiTi mode); a case is non-trivial when it has >= 2 non-default fields or must raise; "
    "distinct = distinct call hashes"
)
ASSUMPTIONS = [
    "a record beginning with 'B;' (including B;Aspirate(...)) is a break record for the set_diti rule",
    "not generated because the statement does not decide them: position 0, bool arguments, floats equal to an integer, "
    "numpy scalars, control characters other than the documented line break in comments, text fields longer than 32 "
    "characters where the statement names no limit (liquid class, tube id, forced rack type), invalid DiTi reuse / "
    "multi-dispense counts, an invalid wash scheme in DiTi mode (the record W; carries no scheme)",
    "comment texts are compared after stripping surrounding blanks per line",
    "the R record volume is not rounded by robotools; it is compared with 1e-9 relative tolerance",
]
HOOK_RULES = ("monitor_error",)

K_TUBE = "C09.tube_id_unvalidated"
K_RLC = "C09.r_liquid_class_unvalidated"
K_RPOS = "C09.r_positions_unvalidated"
K_DITI = "C09.set_diti_index_unvalidated"

PRINTABLE = [chr(c) for c in list(range(0x20, 0x7F)) + list(range(0xA0, 0x100)) if chr(c) != ";"]


def text(rng, lo=0, hi=40):
    n = rng.choice([0, 0, 1, 3, 8, 12, 20, 31, 32, hi]) if hi >= 32 else rng.randint(lo, hi)
    n = max(lo, min(n, hi))
    r = rng.random()
    if r < 0.3:
        pool = "abcXYZ 0123_-.µäÿ()"
        return "".join(rng.choice(pool) for _ in range(n))
    return "".join(rng.choice(PRINTABLE) for _ in range(n))


def gen_tip(rng):
    from robotools import Tip

    r = rng.random()
    if r < 0.35:
        return Tip.Any
    if r < 0.55:
        return rng.randint(1, 8)
    if r < 0.7:
        return rng.choice([Tip.T1, Tip.T2, Tip.T3, Tip.T4, Tip.T5, Tip.T6, Tip.T7, Tip.T8])
    k = rng.randint(1, 4)
    items = [rng.choice([rng.randint(1, 8), rng.choice(list(Tip)[1:])]) for _ in range(k)]
    return rng.choice([list, tuple])(items)


def mask_of(tip):
    from robotools import Tip

    if isinstance(tip, Tip):
        return None if tip == Tip.Any else int(tip)
    if isinstance(tip, int):
        return 1 << (tip - 1)
    m = 0
    for t in tip:
        m |= int(t) if isinstance(t, Tip) else 1 << (t - 1)
    return m


def gen_volume(rng, mx):
    mx = 7158278 if mx > 7158278 else mx  # no record carries more, whatever the worklist allows
    r = rng.random()
    if r < 0.1:
        return rng.choice([0, 0.0, float(mx), mx])
    if r < 0.3:
        return float(rng.randint(0, int(mx)))
    if r < 0.45:
        return rng.randint(0, int(mx))
    if r < 0.75:
        return round(rng.uniform(0, mx), rng.choice([1, 2, 3, 4]))
    return rng.uniform(0, mx)


BAD_VOLUMES = ["neg", "nan", "inf", "huge", "over_max", "none", "text"]
BAD_POSITIONS = ["none", "str", "neg", "float", "zero"]  # (well positions are 1-based: there is no position 0)


def bad_volume(rng, cls, mx):
    return {
        "neg": -rng.choice([1.0, 0.01, 1e-9, 500.0]),
        "nan": math.nan,
        "inf": math.inf,
        "huge": rng.choice([7158278.01, 7158279, 1e9, 1e300] + ([8e6, 9999999] if mx > 7158278 else [])),
        "over_max": rng.choice([mx + 0.01, mx + 1, mx * 2, math.nextafter(float(mx), math.inf)]) if mx else rng.choice([0.01, 1, 250.0]),
        "none": None,
        "text": "abc",
    }[cls]


def bad_position(rng, cls):
    return {"none": None, "str": rng.choice(["1", "A01"]), "neg": -rng.randint(1, 50), "float": rng.choice([1.5, 2.25, 96.5]), "zero": 0}[cls]


def n_cases(tier):
    return 36000 if tier == "quick" else 2000000


ENTRY_WEIGHTS = [("aspirate_well", 6), ("dispense_well", 6), ("reagent_distribution", 6), ("comment", 2), ("wash", 2), ("decontaminate", 1),
                 ("flush", 0.3), ("commit", 0.3), ("set_diti", 2), ("passthrough", 4)]


def gen_case(rng, tier, index):
    entries = [e for e, _ in ENTRY_WEIGHTS]
    entry = rng.choices(entries, weights=[w for _, w in ENTRY_WEIGHTS])[0]
    mx = rng.choice([950, 950, 200, 1000, 333.3, 50])
    if entry in ("aspirate_well", "dispense_well", "reagent_distribution") and rng.random() < 0.04:
        mx = rng.choice([0, 0.0])  # a worklist that may not pipette at all: every positive volume is oversized
    elif entry in ("aspirate_well", "dispense_well", "reagent_distribution") and rng.random() < 0.03:
        mx = rng.choice([1e7, 10**7] + ([math.inf] if entry != "reagent_distribution" else []))  # a step limit above what a record can carry (7158278 uL)
    wl = {"max_volume": mx, "diti_mode": rng.random() < 0.3, "auto_split": True,
          "cls": rng.choice(["base", "base", "base", "evo", "fluent", "deprecated", "deprecated_positional"])}
    case = {"entry": entry, "wl": wl, "faults": []}
    p_fault = 0.45
    if entry in ("aspirate_well", "dispense_well"):
        a = {"rack_label": text(rng, 0, 32), "position": rng.choice([1, 2, 8, 96, 384, rng.randint(1, 2000)]), "volume": gen_volume(rng, mx)}
        kw = {}
        for fld, lim in (("liquid_class", 40), ("rack_id", 32), ("tube_id", 32), ("rack_type", 32), ("forced_rack_type", 32)):
            if rng.random() < 0.45:
                kw[fld] = text(rng, 0, lim)
        if rng.random() < 0.5:
            kw["tip"] = gen_tip(rng)
        if rng.random() < p_fault:
            for _ in range(1 if rng.random() < 0.8 else 2):
                f = rng.choice(["sep:rack_label", "sep:liquid_class", "sep:rack_id", "sep:tube_id", "sep:rack_type", "sep:forced_rack_type",
                                "long:rack_label", "long:rack_id", "long:rack_type"] + ["vol:" + v for v in BAD_VOLUMES] + ["pos:" + p for p in BAD_POSITIONS])
                kind, fld = f.split(":")
                if kind == "sep":
                    base = (a if fld == "rack_label" else kw).get(fld) or ""
                    k = rng.randint(0, min(len(base), 30))
                    val = (base[:k] + ";" + base[k:])[:32]
                    if ";" not in val:
                        val = ";" + val[:31]
                    (a if fld == "rack_label" else kw)[fld] = val
                elif kind == "long":
                    (a if fld == "rack_label" else kw)[fld] = text(rng, 33, 40)[:40].ljust(33, "x")
                    if rng.random() < 0.5:
                        # the very same text is legal in another role (a liquid class or a comment may be longer than 32
                        # characters): given in that role in this call, or accepted in that role a moment ago
                        case["long_seen"] = rng.choice(["same_call", "earlier_call", "earlier_comment"])
                        if case["long_seen"] == "same_call" and not any(x.startswith("sep:liquid_class") for x in case["faults"]):
                            kw["liquid_class"] = (a if fld == "rack_label" else kw)[fld]
                elif kind == "vol":
                    a["volume"] = bad_volume(rng, fld, mx)
                else:
                    a["position"] = bad_position(rng, fld)
                case["faults"].append(f)
        elif rng.random() < 0.12:
            # integral-valued float / numpy integer position: the statement does not say whether such a
            # call is valid - but if it is accepted the record must still be well-formed
            a["position"] = rng.choice([float(a["position"]), np.int64(a["position"]), np.float64(a["position"]), True])
            case["either"] = "position"
        elif rng.random() < 0.04:
            # the library's own identifier enum as rack label: the record names the identifier, not the enum member
            a["rack_label"] = {"__labwares__": "SystemLiquid"}
        if rng.random() < 0.3:
            # the same call was made a moment ago on another worklist with arguments that compare equal but are of
            # another type (tip number 4 / Tip.T3 whose value is 4, position 1 / 1.0, volume 5 / 5.0)
            case["primed"] = rng.choice(["tip", "tip", "volume", "position", "all"])
        case["args"], case["kw"] = enc(a), enc(kw)
    elif entry == "reagent_distribution":
        s0 = rng.randint(1, 40)
        s1 = s0 + rng.choice([0, 0, 7, 15])
        d0 = rng.randint(1, 90)
        d1 = d0 + rng.randint(0, 95)
        vol = gen_volume(rng, mx)
        a = {"src_rack_label": text(rng, 0, 32), "src_start": s0, "src_end": s1, "dst_rack_label": text(rng, 0, 32), "dst_start": d0, "dst_end": d1}
        kw = {"volume": vol}
        if rng.random() < 0.5:
            kw["diti_reuse"] = rng.randint(1, 12)
        if rng.random() < 0.6:
            kw["multi_disp"] = rng.choice([1, 2, 3, 6, 12, 50])
        if rng.random() < 0.5:
            k = rng.randint(0, min(6, d1 - d0 + 1))
            ex = rng.sample(range(d0, d1 + 1), k)
            kw["exclude_wells"] = rng.choice([list, tuple, set])(ex) if ex or rng.random() < 0.5 else None
            if ex and rng.random() < 0.2:
                # any Iterable[int] is documented: a one-shot iterator / generator as well
                kw["exclude_wells"] = {rng.choice(["__iter__", "__gen__"]): list(ex)}
        if rng.random() < 0.5:
            kw["liquid_class"] = text(rng, 0, 40)
        if rng.random() < 0.5:
            kw["direction"] = rng.choice(["left_to_right", "right_to_left"])
        for fld in ("src_rack_id", "src_rack_type", "dst_rack_id", "dst_rack_type"):
            if rng.random() < 0.3:
                kw[fld] = text(rng, 0, 32)
        if rng.random() < p_fault:
            for _ in range(1 if rng.random() < 0.8 else 2):
                f = rng.choice(["sep:src_rack_label", "sep:dst_rack_label", "sep:liquid_class", "sep:src_rack_id", "sep:src_rack_type",
                                "sep:dst_rack_id", "sep:dst_rack_type", "long:src_rack_label", "long:dst_rack_label", "long:src_rack_id",
                                "long:dst_rack_type", "direction:x", "exclude:outside"] + ["vol:" + v for v in BAD_VOLUMES if v != "text"]
                               + ["pos:" + p + ":" + w for p in BAD_POSITIONS for w in ("src_start", "src_end", "dst_start", "dst_end")])
                parts = f.split(":")
                kind, fld = parts[0], parts[1]
                tgt = a if fld in a else kw
                if kind == "sep":
                    base = tgt.get(fld) or ""
                    k = rng.randint(0, min(len(base), 30))
                    val = (base[:k] + ";" + base[k:])[:32]
                    if ";" not in val:
                        val = ";" + val[:31]
                    tgt[fld] = val
                elif kind == "long":
                    tgt[fld] = text(rng, 33, 40)[:40].ljust(33, "y")
                    if rng.random() < 0.5:
                        case["long_seen"] = rng.choice(["same_call", "earlier_call", "earlier_comment"])
                        if case["long_seen"] == "same_call" and not any(x.startswith("sep:liquid_class") for x in case["faults"]):
                            kw["liquid_class"] = tgt[fld]
                elif kind == "vol":
                    kw["volume"] = bad_volume(rng, fld, mx)
                elif kind == "direction":
                    kw["direction"] = rng.choice(["up", "", "LEFT_TO_RIGHT", "right to left"])
                elif kind == "exclude":
                    kw["exclude_wells"] = [rng.choice([d0 - 1, d1 + 1, d1 + 50, 0])]
                else:
                    a[parts[2]] = bad_position(rng, fld)
                    if kw.get("exclude_wells") and parts[2].startswith("dst"):
                        kw["exclude_wells"] = None
                case["faults"].append(f)
        elif rng.random() < 0.1:
            which = rng.choice(["src_start", "src_end", "dst_start", "dst_end"])
            a[which] = rng.choice([float(a[which]), np.int64(a[which])])
            case["either"] = which
        elif rng.random() < 0.05 and d1 - d0 >= 3:
            # excluded wells given as integral floats / booleans / numpy integers
            kw["exclude_wells"] = [rng.choice([float(d0 + 1), np.int64(d0 + 1)]), d0 + 2] if d0 > 1 or rng.random() < 0.5 else [True, d0 + 2]
            case["either"] = "exclude_wells"
        elif rng.random() < 0.08:
            # the two counts: a refusal is fine, an accepted call must still emit a well-formed record
            which = rng.choice(["diti_reuse", "multi_disp"])
            kw[which] = rng.choice(["x;y", -3.5, 2.5, True, ";"])
            case["either"] = which
        case["args"], case["kw"] = enc(a), enc(kw)
    elif entry == "comment":
        r = rng.random()
        if r < 0.1:
            t = rng.choice([None, ""])
        elif r < 0.75:
            t = text(rng, 1, 40)
        else:
            t = "\n".join(text(rng, 0, 20) for _ in range(rng.randint(2, 4)))
        if t and rng.random() < 0.3:
            k = rng.randint(0, len(t))
            t = t[:k] + ";" + t[k:]
            case["faults"].append("sep:comment")
        case["args"] = enc({"comment": t})
    elif entry == "wash":
        r_ = rng.random()
        if r_ < 0.1:
            case["args"] = enc({"scheme": rng.choice([1.0, 2.0, 4.0, np.int64(3), True])})
            case["either"] = "scheme"
        elif r_ < 0.6:
            case["args"] = {"scheme": rng.choice([1, 2, 3, 4])}
        else:
            case["args"] = enc({"scheme": rng.choice([0, 5, -1, 9, "1", "W1", None, 2.5])})
            case["faults"].append("scheme")  # an invalid scheme is invalid whatever the tip type
    elif entry == "decontaminate":
        if wl["diti_mode"]:
            case["faults"].append("decontaminate_in_diti_mode")
    elif entry == "set_diti":
        case["prefix"] = rng.choice(["empty", "break", "script_break", "aspirate", "comment", "wash", "set_diti"])
        r = rng.random()
        if r < 0.08:
            case["args"] = enc({"index": rng.choice([2.0, np.int64(3), 1.0, True, False])})
            case["either"] = "index"
        elif r < 0.75:
            case["args"] = {"index": rng.choice([0, 1, 2, 5, 12, 255])}
        else:
            case["args"] = enc({"index": rng.choice([-1, 1.5, "2", None, -7, math.nan])})
            case["faults"].append("diti_index")
        if case["prefix"] in ("aspirate", "comment", "wash", "set_diti"):
            case["faults"].append("diti_switch_not_after_break")
    elif entry == "passthrough":
        op = rng.choice(["aspirate", "dispense", "transfer", "distribute"])
        case["op"] = op
        case["device"] = rng.choice(["evo", "fluent"])
        kw = {}
        if op == "distribute":
            for fld in ("liquid_class", "src_rack_id", "src_rack_type", "dst_rack_id", "dst_rack_type"):
                if rng.random() < 0.5:
                    kw[fld] = text(rng, 0, 32)
            if rng.random() < 0.5:
                kw["multi_disp"] = rng.choice([1, 2, 6, 12])
            if rng.random() < 0.5:
                kw["direction"] = rng.choice(["left_to_right", "right_to_left"])
            flds = ["sep:liquid_class", "sep:src_rack_id", "sep:dst_rack_type", "long:src_rack_type", "long:dst_rack_id", "direction:x"]
        else:
            for fld, lim in (("liquid_class", 40), ("rack_id", 32), ("tube_id", 32), ("rack_type", 32), ("forced_rack_type", 32)):
                if rng.random() < 0.5:
                    kw[fld] = text(rng, 0, lim)
            if rng.random() < 0.5:
                kw["tip"] = gen_tip(rng)
            flds = ["sep:liquid_class", "sep:rack_id", "sep:tube_id", "sep:rack_type", "sep:forced_rack_type", "long:rack_id", "long:rack_type"]
            if op == "transfer":
                flds += ["scheme:wash_scheme"] * 2
        flds += ["sep:label"]
        if rng.random() < p_fault:
            f = rng.choice(flds)
            kind, fld = f.split(":")
            if f == "sep:label":
                pass  # set below
            elif kind == "sep":
                base = kw.get(fld) or ""
                k = rng.randint(0, min(len(base), 30))
                val = (base[:k] + ";" + base[k:])[:32]
                kw[fld] = val if ";" in val else ";" + val[:31]
            elif kind == "long":
                kw[fld] = text(rng, 33, 40)[:40].ljust(33, "z")
            elif kind == "scheme":
                kw["wash_scheme"] = rng.choice([0, 5, 7, -1, "W1", 2.5, "rinse"])  # neither 1-4 nor 'flush' / 'reuse'
            else:
                kw["direction"] = "sideways"
            case["faults"].append(f)
        case["kw"] = enc(kw)
        case["label"] = rng.choice([None, "", "lbl", "µ-step"])
        if "sep:label" in case["faults"]:
            case["label"] = rng.choice(["a;b", ";", "step 1; step 2"])
        case["volume"] = rng.choice([10, 12.345, 0.5, mx])
        case["n"] = rng.randint(1, 4)
        if op in ("aspirate", "dispense") and not case["faults"] and rng.random() < 0.15:
            # the volume of a LATER well cannot be represented (above max_volume): nothing of the call is written
            case["n"] = rng.randint(2, 4)
            case["volume"] = [10.0] * (case["n"] - 1) + [mx + rng.choice([0.01, 1.0, mx])]
            case["faults"].append("vol:later_well_over_max")
    return case


def _prefix(wl, kind):
    if kind == "break":
        wl.commit()
    elif kind == "script_break":
        wl.append('B;Wash(255,1,0,1,1,"3.0",500,"4.0",500,10,70,30,1,0,1000,0);')
    elif kind == "aspirate":
        wl.aspirate_well("rack", 1, 10)
    elif kind == "comment":
        wl.comment("note")
    elif kind == "wash":
        wl.wash()
    elif kind == "set_diti":
        wl.set_diti(1)


def _twin(x):
    """A value that compares (and hashes) equal to x but is of another type, or x itself."""
    from robotools import Tip

    if isinstance(x, Tip):
        return int(x) if x != Tip.Any else x
    if isinstance(x, bool):
        return int(x)
    if isinstance(x, (int, np.integer)):
        try:
            return Tip(int(x))
        except ValueError:
            return float(x)
    if isinstance(x, float) and x.is_integer() and abs(x) < 2**53:
        return int(x)
    if isinstance(x, (list, tuple)):
        return type(x)(_twin(e) for e in x)
    return x


def _prime(ctx, cls, wlc, entry, label_arg, a, kw, case_primed):
    """Make the twin call on a worklist of its own; whatever it does, the judged call must not notice."""
    try:
        other = cls(max_volume=wlc["max_volume"], diti_mode=wlc["diti_mode"])
        kw2 = dict(kw)
        how = case_primed
        if "tip" in kw2 and how in ("tip", "all"):
            kw2["tip"] = _twin(kw2["tip"])
        pos, vol = a["position"], a["volume"]
        if how in ("position", "all") and isinstance(pos, (int, float)) and not isinstance(pos, bool):
            pos = _twin(pos) if not isinstance(pos, int) else float(pos)
        if how in ("volume", "all"):
            vol = _twin(vol)
        getattr(other, entry)(label_arg, pos, vol, **kw2)
        ctx.count("twin_call_made_before:accepted")
    except Exception:
        ctx.count("twin_call_made_before:refused")


def run_case(ctx, case):
    import robotools

    entry = case["entry"]
    wlc = case["wl"]
    faults = case["faults"]
    must_raise = bool(faults)
    ctx.count("entry:" + entry)
    for f in faults:
        ctx.count(f"fault:{entry}:{f.split(':')[0] + ':' + f.split(':')[1] if ':' in f else f}")
    nontrivial = must_raise
    if entry == "passthrough":
        return _run_passthrough(ctx, case)
    kind = wlc.get("cls", "base")
    ctx.feature("worklist_class", kind)
    if kind == "evo":
        wl = robotools.EvoWorklist(max_volume=wlc["max_volume"], diti_mode=wlc["diti_mode"])
    elif kind == "fluent":
        wl = robotools.FluentWorklist(max_volume=wlc["max_volume"], diti_mode=wlc["diti_mode"])
    elif kind == "deprecated":
        wl = robotools.Worklist(max_volume=wlc["max_volume"], diti_mode=wlc["diti_mode"])
    elif kind == "deprecated_positional":
        wl = robotools.Worklist(None, wlc["max_volume"], True, wlc["diti_mode"])
    else:
        wl = robotools.BaseWorklist(max_volume=wlc["max_volume"], diti_mode=wlc["diti_mode"])
    if entry == "set_diti":
        _prefix(wl, case["prefix"])
        ctx.feature("set_diti_prefix", case["prefix"])
    n0 = len(wl)
    before = list(wl)
    a = dec(case.get("args", {})) or {}
    kw = dec(case.get("kw", {})) or {}
    if isinstance(a.get("rack_label"), dict) and "__labwares__" in a["rack_label"]:
        member = robotools.Labwares[a["rack_label"]["__labwares__"]]
        a = dict(a, rack_label=member.value)  # what the record has to carry
        label_arg = member
        ctx.count("rack_label_given_as_Labwares_member")
    else:
        label_arg = a.get("rack_label")
    ex_given = kw.get("exclude_wells")
    if isinstance(ex_given, dict) and ("__iter__" in ex_given or "__gen__" in ex_given):
        items = list(ex_given.get("__iter__") or ex_given.get("__gen__"))
        kw = dict(kw, exclude_wells=iter(items) if "__iter__" in ex_given else (x for x in items))
        ex_given = items
        ctx.count("exclusions_given_as_one_shot_iterator")
    exc = None
    if case.get("primed") and entry in ("aspirate_well", "dispense_well"):
        _prime(ctx, type(wl), wlc, entry, label_arg, a, kw, case["primed"])
    if case.get("long_seen") in ("earlier_call", "earlier_comment"):
        longs = [v for v in list(a.values()) + list(kw.values()) if isinstance(v, str) and len(v) > 32 and ";" not in v]
        try:
            other = robotools.BaseWorklist(max_volume=950)
            for t in longs:
                if case["long_seen"] == "earlier_call":
                    other.aspirate_well("rack", 1, 1.0, liquid_class=t)
                    other.reagent_distribution("S", 1, 8, "D", 1, 8, volume=1.0, liquid_class=t)
                else:
                    other.comment(t)
            ctx.count("over_long_text_was_accepted_in_another_role_before:" + case["long_seen"], len(longs))
        except Exception:
            ctx.count("over_long_text_refused_in_the_other_role")
    elif case.get("long_seen") == "same_call":
        ctx.count("over_long_text_also_given_as_liquid_class_of_the_call")
    try:
        if entry in ("aspirate_well", "dispense_well"):
            getattr(wl, entry)(label_arg, a["position"], a["volume"], **kw)
        elif entry == "reagent_distribution":
            wl.reagent_distribution(a["src_rack_label"], a["src_start"], a["src_end"], a["dst_rack_label"], a["dst_start"], a["dst_end"], **kw)
        elif entry == "comment":
            wl.comment(a["comment"])
        elif entry == "wash":
            wl.wash(a["scheme"])
        elif entry == "set_diti":
            wl.set_diti(a["index"])
        else:
            getattr(wl, entry)()
    except Exception as e:
        exc = e
    new = list(wl[n0:])
    det = lambda extra=None: dict({"call": entry, "args": case.get("args"), "kw": case.get("kw"), "worklist": wlc, "faults": faults,
                                   "prefix": case.get("prefix"), "raised": repr(exc), "appended": new}, **(extra or {}))
    if must_raise:
        key = None
        if exc is None:
            fs = set(faults)
            if fs == {"sep:tube_id"}:
                key = K_TUBE
            elif entry == "reagent_distribution" and fs == {"sep:liquid_class"}:
                key = K_RLC
            elif entry == "reagent_distribution" and all(f.startswith("pos:") for f in fs):
                key = K_RPOS
            elif entry == "set_diti" and fs == {"diti_index"}:
                key = K_DITI
        ctx.check("unrepresentable_call_raises", exc is not None, det, key=key)
        ctx.check("raising_call_appends_nothing", list(wl) == before, det, key=key)
        ctx.case(case, True)
        return
    if case.get("either"):
        ctx.count("ambiguous_validity:" + entry)
        if exc is not None:
            ctx.count("ambiguous_validity_rejected:" + entry)
            ctx.check("raising_call_appends_nothing", list(wl) == before, det)
            ctx.case(case, True)
            return
        ctx.count("ambiguous_validity_accepted:" + entry)
    elif not ctx.check("representable_call_is_accepted", exc is None, det):
        ctx.case(case, nontrivial)
        return
    # ---- every appended record conforms to the grammar
    recs = []
    for r in new:
        try:
            recs.append(gwl.parse(r))
        except gwl.GrammarError as e:
            ctx.check("record_conforms_to_grammar", False, lambda: det({"error": str(e)}))
            ctx.case(case, nontrivial)
            return
        ctx.check("record_conforms_to_grammar", True)
    ctx.check("earlier_records_untouched", list(wl[:n0]) == before, det)
    # ---- decoded fields equal the arguments
    if entry in ("aspirate_well", "dispense_well"):
        ok = len(recs) == 1 and recs[0].type == ("A" if entry == "aspirate_well" else "D")
        if ok:
            f = recs[0].f
            vol = float(a["volume"])
            ok = (
                f["label"] == a["rack_label"] and f["position"] == a["position"] and abs(f["volume"] - fr(vol)) <= Fraction(1, 200) + Fraction(1e-9) * fr(max(vol, 1))
                and f["liquid_class"] == kw.get("liquid_class", "") and f["rack_id"] == kw.get("rack_id", "") and f["tube_id"] == kw.get("tube_id", "")
                and f["rack_type"] == kw.get("rack_type", "") and f["forced_rack_type"] == kw.get("forced_rack_type", "")
                and f["tip_mask"] == (mask_of(kw["tip"]) if "tip" in kw else None)
            )
        ctx.check("record_carries_exactly_the_arguments", ok, det)
        nontrivial = nontrivial or len(kw) >= 2
    elif entry == "reagent_distribution":
        ok = len(recs) == 1 and recs[0].type == "R"
        if ok:
            f = recs[0].f
            vol = kw["volume"]
            md = kw.get("multi_disp", 1)
            if md * fr(vol) > fr(wlc["max_volume"]):
                want_md = math.floor(fr(wlc["max_volume"]) / fr(vol))
                ctx.count("multi_dispense_reduced")
            else:
                want_md = md
            ex = ex_given
            ok = (
                f["src_label"] == a["src_rack_label"] and f["dst_label"] == a["dst_rack_label"]
                and (f["src_start"], f["src_end"], f["dst_start"], f["dst_end"]) == (a["src_start"], a["src_end"], a["dst_start"], a["dst_end"])
                and abs(f["volume"] - fr(vol)) <= Fraction(1e-9) * max(fr(vol), 1)
                and f["liquid_class"] == kw.get("liquid_class", "") and f["diti_reuse"] == kw.get("diti_reuse", 1)
                and f["multi_disp"] == want_md and f["direction"] == (1 if kw.get("direction") == "right_to_left" else 0)
                and f["exclude"] == sorted(ex or []) and f["src_id"] == kw.get("src_rack_id", "") and f["src_type"] == kw.get("src_rack_type", "")
                and f["dst_id"] == kw.get("dst_rack_id", "") and f["dst_type"] == kw.get("dst_rack_type", "")
            )
        ctx.check("record_carries_exactly_the_arguments", ok, det)
        nontrivial = nontrivial or len(kw) >= 3
    elif entry == "comment":
        t = a["comment"]
        want = [l.strip() for l in (t or "").split("\n") if l.strip()]
        ok = all(r.type == "C" for r in recs) and [r.f["text"].strip() for r in recs] == want
        ctx.check("record_carries_exactly_the_arguments", ok, det)
        nontrivial = nontrivial or len(want) >= 2
    elif entry == "wash":
        want = "W;" if wlc["diti_mode"] else f"W{a['scheme']};"
        ctx.check("record_carries_exactly_the_arguments", new == [want], det)
    elif entry == "decontaminate":
        ctx.check("record_carries_exactly_the_arguments", new == ["WD;"], det)
    elif entry == "flush":
        ctx.check("record_carries_exactly_the_arguments", new == ["F;"], det)
    elif entry == "commit":
        ctx.check("record_carries_exactly_the_arguments", new == ["B;"], det)
    elif entry == "set_diti":
        ok = len(recs) == 1 and recs[0].type == "S" and recs[0].f["index"] == a["index"]
        ctx.check("record_carries_exactly_the_arguments", ok, det)
        ctx.count("set_diti_accepted_after:" + case["prefix"])
    ctx.case(case, nontrivial)


def _run_passthrough(ctx, case):
    import robotools

    op = case["op"]
    wlc = case["wl"]
    faults = case["faults"]
    cls = robotools.EvoWorklist if case["device"] == "evo" else robotools.FluentWorklist
    wl = cls(max_volume=wlc["max_volume"], diti_mode=wlc["diti_mode"])
    src = robotools.Trough("src", 8, 2, min_volume=0, max_volume=1e6, initial_volumes=[5e5, 5e5])
    dst = robotools.Labware("dst", 8, 12, min_volume=0, max_volume=1e6, initial_volumes=1e3)
    kw = dec(case["kw"]) or {}
    n = case["n"]
    v = case["volume"]
    wells = [f"{'ABCDEFGH'[i]}01" for i in range(n)]
    src0, dst0 = src.volumes.copy(), dst.volumes.copy()
    exc = None
    try:
        if op == "aspirate":
            wl.aspirate(dst, wells, v, label=case["label"], **kw)
        elif op == "dispense":
            wl.dispense(dst, wells, v, label=case["label"], **kw)
        elif op == "transfer":
            wl.transfer(src, wells, dst, wells, v, label=case["label"], **kw)
        else:
            wl.distribute(src, 1, dst, wells, volume=v, label=case["label"] or "", **kw)
    except Exception as e:
        exc = e
    new = list(wl)
    ctx.count("passthrough:" + op)
    det = lambda extra=None: dict({"call": op, "device": case["device"], "kw": case["kw"], "worklist": wlc, "faults": faults, "raised": repr(exc),
                                   "appended": new[:12], "volume": v, "n": n}, **(extra or {}))
    recs, bad = [], None
    for r in new:
        try:
            recs.append(gwl.parse(r))
        except gwl.GrammarError as e:
            bad = (r, str(e))
    if faults:
        key = None
        fs = set(faults)
        if exc is None or any(r.type in ("A", "D", "R") for r in recs) or bad:
            if fs == {"sep:tube_id"}:
                key = K_TUBE
            elif op == "distribute" and fs == {"sep:liquid_class"}:
                key = K_RLC
        ctx.check("unrepresentable_call_raises", exc is not None, det, key=key)
        ctx.check("raising_call_appends_no_pipetting_record", bad is None and not any(r.type in ("A", "D", "R") for r in recs), det, key=key)
        if exc is not None:
            # "raises and appends nothing": not even the label comment of the refused call
            ctx.check("raising_call_appends_nothing", len(new) == 0, det)
            # ... and a call that wrote nothing has not pipetted anything either
            untouched = bool(np.array_equal(src.volumes, src0) and np.array_equal(dst.volumes, dst0))
            ctx.check("raising_call_leaves_the_labware_untouched", untouched,
                      lambda: det({"source_volumes": src.volumes.tolist(), "destination_column_1": dst.volumes[:, 0].tolist()}))
        ctx.case(case, True)
        return
    if not ctx.check("representable_call_is_accepted", exc is None, det):
        ctx.case(case, False)
        return
    ctx.check("record_conforms_to_grammar", bad is None, lambda: det({"error": bad}))
    if bad:
        ctx.case(case, False)
        return
    ok = True
    if op == "distribute":
        rs = [r for r in recs if r.type == "R"]
        ok = len(rs) == 1
        if ok:
            f = rs[0].f
            md = kw.get("multi_disp", 1)
            want_md = math.floor(fr(wlc["max_volume"]) / fr(v)) if md * fr(v) > fr(wlc["max_volume"]) else md
            ok = (f["liquid_class"] == kw.get("liquid_class", "") and f["src_id"] == kw.get("src_rack_id", "") and f["src_type"] == kw.get("src_rack_type", "")
                  and f["dst_id"] == kw.get("dst_rack_id", "") and f["dst_type"] == kw.get("dst_rack_type", "") and f["multi_disp"] == want_md
                  and f["direction"] == (1 if kw.get("direction") == "right_to_left" else 0) and f["src_label"] == "src" and f["dst_label"] == "dst")
    else:
        ps = [r for r in recs if r.type in ("A", "D")]
        ok = len(ps) >= 1
        for r in ps:
            f = r.f
            ok = ok and (f["liquid_class"] == kw.get("liquid_class", "") and f["rack_id"] == kw.get("rack_id", "") and f["tube_id"] == kw.get("tube_id", "")
                         and f["rack_type"] == kw.get("rack_type", "") and f["forced_rack_type"] == kw.get("forced_rack_type", "")
                         and f["tip_mask"] == (mask_of(kw["tip"]) if "tip" in kw else None))
    ctx.check("pass_through_keywords_reach_the_records", ok, det)
    ctx.case(case, len(kw) >= 2)


def gates(stats, tier):
    c, f = stats["counters"], stats["features"]
    r = []
    for k in ("rule:unrepresentable_call_raises", "rule:raising_call_appends_nothing", "rule:record_conforms_to_grammar",
              "rule:record_carries_exactly_the_arguments", "rule:pass_through_keywords_reach_the_records",
              "rule:raising_call_appends_no_pipetting_record", "multi_dispense_reduced",
              "set_diti_accepted_after:empty", "set_diti_accepted_after:break", "set_diti_accepted_after:script_break"):
        if not c.get(k):
            r.append(f"never evaluated/observed: {k}")
    for e in ("aspirate_well", "dispense_well", "reagent_distribution", "comment", "wash", "decontaminate", "flush", "commit", "set_diti", "passthrough"):
        if not c.get("entry:" + e):
            r.append(f"entry point never called: {e}")
    for p in ("aspirate", "dispense", "transfer", "distribute"):
        if not c.get("passthrough:" + p):
            r.append(f"pass-through never exercised: {p}")
    need = ["aspirate_well:sep:" + x for x in ("rack_label", "liquid_class", "rack_id", "tube_id", "rack_type", "forced_rack_type")]
    need += ["aspirate_well:long:" + x for x in ("rack_label", "rack_id", "rack_type")]
    need += ["aspirate_well:vol:" + x for x in ("neg", "nan", "inf", "huge", "over_max")] + ["aspirate_well:pos:" + x for x in BAD_POSITIONS]
    need += ["reagent_distribution:sep:liquid_class", "reagent_distribution:direction:x", "reagent_distribution:exclude:outside",
             "reagent_distribution:vol:nan", "reagent_distribution:pos:float", "comment:sep:comment", "wash:scheme",
             "decontaminate:decontaminate_in_diti_mode", "set_diti:diti_switch_not_after_break"]
    for n_ in need:
        if not c.get("fault:" + n_):
            r.append(f"fault class never generated: {n_}")
    if stats["distinct_nontrivial"] < (50 if tier == "quick" else 1000):
        r.append("too few distinct non-trivial cases")
    return r
