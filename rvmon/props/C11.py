"""C11 - the labware history is append-only, condensed per operation, and truthful."""
from __future__ import annotations

import re

import numpy as np

from .. import gen, gwl, hist
from ..attach import flat_f
from ..core import dec, enc

ID = "C11"
TITLE = "The labware history is append-only, condensed per operation, and truthful"
LEVEL = "exploration"
TECHNIQUE = (
    "runtime monitoring: deep snapshots of Labware.history before every operation, retained references to every "
    "array handed out by .volumes/.history, pair count from the record-list hook; offline comparison after each call"
)
ATTACH = ("labware", "worklist")
RULE = (
    "cases = online-generated histories of 5..150 operations mixing add/remove/aspirate/dispense/evo_*/transfer/"
    "distribute with zero volumes (incl. transfers that move nothing and zeros mixed with split volumes), split "
    "volumes, same-labware transfers, labels present/absent, rejected operations in between; a history is "
    "non-trivial when an operation ran on a labware whose history already had >= 3 entries; distinct = distinct "
    "(worktable, seed) hashes"
)
ASSUMPTIONS = [
    "the large-volume note is recognised as 'the entry label minus the operation label contains exactly one "
    "integer' (format-agnostic)",
    "for a transfer/distribute that moved no liquid both 'history unchanged' and 'one new entry' are accepted",
    "a rejected operation may leave additional (uncondensed) entries behind, but must not alter earlier ones",
]
HOOK_RULES = ("monitor_error",)

D3 = "C11.condense_zero_steps"
D4 = "C11.lvh_count_zero_volumes"


class Entry(tuple):
    """(label, bytes of the float array, shape): cheap to compare, decodable for witnesses."""

    def tolist(self):
        return np.frombuffer(self[1], dtype=float).reshape(self[2]).tolist()


def snap(lw):
    out = []
    for lab, arr in lw.history:
        a = np.ascontiguousarray(arr, dtype=float)
        out.append(Entry((lab, a.tobytes(), a.shape)))
    return out


def same_entries(a, b):
    return a == b


class HistoryMonitor(hist.Monitor):
    def __init__(self, ctx):
        self.ctx = ctx
        self.nontrivial = False
        self.retained = []  # (description, live reference, private copy)

    def start(self, eng):
        for name, lw in eng.world.lw.items():
            h = lw.history
            self.ctx.check(
                "history_starts_with_the_initial_state",
                len(h) == 1 and h[0][0] == "initial" and np.array_equal(h[0][1], np.array(eng.descs[name]["initial"], dtype=float)),
                lambda: {"labware": name, "history": enc([(l, a) for l, a in h])},
            )

    def before(self, eng, op):
        self.pre = {n: snap(lw) for n, lw in eng.world.lw.items()}
        # retain what a user could be holding on to
        for n, lw in eng.world.lw.items():
            if len(self.retained) < 400:
                v = lw.volumes
                self.retained.append((f"{n}.volumes before op {op['_i']}", v, np.array(v, copy=True)))
                h = lw.history
                if h:
                    self.retained.append((f"{n}.history[-1] before op {op['_i']}", h[-1][1], np.array(h[-1][1], copy=True)))

    def check_retained(self, eng, op):
        for what, ref, cp in self.retained:
            if not np.array_equal(ref, cp, equal_nan=True):
                self.ctx.check(
                    "arrays_handed_out_earlier_are_snapshots",
                    False,
                    {"what": what, "now": enc(ref), "then": enc(cp), "op": enc(op), "history_tail": eng.tail()},
                )
                return
        self.ctx.check("arrays_handed_out_earlier_are_snapshots", True)

    def after(self, eng, op, out):
        ctx = self.ctx
        kind = op["op"]
        post = {n: snap(lw) for n, lw in eng.world.lw.items()}
        det = lambda extra=None: dict(
            {"op": enc(op), "raised": repr(out.exc),
             "before": {n: [(e[0], e.tolist()) for e in h[-4:]] for n, h in self.pre.items()},
             "after": {n: [(e[0], e.tolist()) for e in h[-6:]] for n, h in post.items()},
             "lengths": {n: [len(self.pre[n]), len(post[n])] for n in post}, "history_tail": eng.tail(4)}, **(extra or {}))
        if any(len(h) >= 3 for h in self.pre.values()):
            self.nontrivial = True
        # participants and whether liquid moved
        els = hist.elements(op)
        moved = any(abs(v) > 0 for _, _, v in els)
        if kind in ("transfer", "distribute"):
            part = [op["src"]] if op["src"] == op["dst"] else [op["src"], op["dst"]]
        else:
            part = [op["lw"]]
        n_A = sum(1 for r in out.appended if r.startswith("A;"))
        # ---- append-only: earlier entries never altered or dropped (successful or not)
        for n in post:
            keep = len(self.pre[n])
            ok = len(post[n]) >= keep and same_entries(post[n][:keep], self.pre[n])
            key = None
            if not ok and kind == "transfer" and out.exc is None and n_A == 0 and n in part:
                key = D3  # a transfer that emitted no aspirate condensed "0 entries" = the whole history
            ctx.check("earlier_entries_unchanged", ok, lambda: det({"labware": n}), key=key)
            if not ok:
                self.retained = [r for r in self.retained if not r[0].startswith(n + ".")]
        if out.exc is not None:
            ctx.count("append_only_checked_after_rejected_operation")
            self.check_retained(eng, op)
            return
        # ---- number of new entries
        for n in post:
            if len(post[n]) < len(self.pre[n]) or not same_entries(post[n][: len(self.pre[n])], self.pre[n]):
                continue  # already reported above
            new = len(post[n]) - len(self.pre[n])
            if n not in part:
                ctx.check("non_participating_labware_gets_no_entry", new == 0, lambda: det({"labware": n}))
                continue
            if kind in ("transfer", "distribute") and not moved:
                ctx.count("operation_moved_nothing:" + kind)
                ctx.check("operation_moving_nothing_adds_at_most_one_entry", new in (0, 1), lambda: det({"labware": n}))
            else:
                ctx.check("exactly_one_entry_per_operation_and_labware", new == 1, lambda: det({"labware": n, "new_entries": new}))
                if kind == "transfer" and op["src"] == op["dst"]:
                    ctx.count("same_labware_transfer")
            if new >= 1:
                lab = post[n][-1][0]
                arr = np.array(post[n][-1].tolist())
                ctx.check(
                    "newest_entry_equals_current_volumes",
                    np.array_equal(arr, eng.cur(n), equal_nan=True),
                    lambda: det({"labware": n, "current": eng.cur(n).tolist()}),
                )
                # ---- label
                want = op.get("label") if kind != "distribute" else op.get("kw", {}).get("label", "")
                s_, d_, v_ = (None, None, None)
                split = False
                extra_pairs = 0
                has_zero = False
                if kind == "transfer":
                    vols = [abs(v) for nn, _, v in els if v < 0 or (op["src"] == op["dst"] and False)]
                    req = [float(x) for x in flat_f(dec(op["vol"]))]
                    nreq = max(len(flat_f(dec(op["sw"]))), len(flat_f(dec(op["dw"]))), len(req))
                    if len(req) == 1:
                        req = req * nreq
                    nonzero = sum(1 for x in req if x > 0)
                    extra_pairs = n_A - nonzero
                    split = extra_pairs > 0
                    has_zero = any(x == 0 for x in req)
                if not split:
                    keyl = None
                    if lab != want and kind == "transfer" and has_zero and isinstance(lab, str) and lab.startswith(want or "") \
                            and len(re.findall(r"-?\d+", lab[len(want or ""):])) == 1:
                        keyl = D4  # zero volumes counted as -1 "extra" steps: a note although nothing was split
                    ctx.check("entry_labelled_with_operation_label", lab == want,
                              lambda: det({"labware": n, "label": lab, "expected": want}), key=keyl)
                else:
                    ctx.count("split_transfer_labelled")
                    base = want or ""
                    okp = isinstance(lab, str) and lab.startswith(base)
                    rest = lab[len(base):] if okp else ""
                    nums = re.findall(r"-?\d+", rest)
                    okn = okp and len(nums) == 1
                    ctx.check("split_transfer_label_carries_a_large_volume_note", okn,
                              lambda: det({"labware": n, "label": lab, "expected_prefix": base, "extra_pairs": extra_pairs}),
                              key=D4 if (has_zero and lab == want) else None)
                    if okn:
                        keyn = D4 if (int(nums[0]) != extra_pairs and has_zero) else None
                        ctx.check(
                            "reported_large_volume_steps_equal_extra_pairs",
                            int(nums[0]) == extra_pairs,
                            lambda: det({"labware": n, "label": lab, "extra_pairs": extra_pairs, "aspirate_records": n_A}),
                            key=keyn,
                        )
                if kind == "transfer" and not split and any(x == 0 for x in req) and lab != want:
                    pass
            # the printable report lists the same entries in the same order
            if len(post[n]) > 12 and eng.rng.random() > 0.15:
                continue  # formatting a long history is expensive: sample it
            lw = eng.world.lw[n]
            rep = lw.report
            labels = [e[0] for e in post[n] if e[0]]
            # format-agnostic: every non-empty label appears, in history order
            pos, okr = 0, isinstance(rep, str)
            if okr:
                for l in labels:
                    j = rep.find(l, pos)
                    if j < 0:
                        okr = False
                        break
                    pos = j + len(l)
            ctx.check("report_lists_same_entries_in_order", okr, lambda: det({"labware": n, "report": rep[-600:]}))
        # D4 also shows when zero volumes make the note appear/disappear wrongly
        self.check_retained(eng, op)

    def finish(self, eng):
        self.check_retained(eng, None)


def n_cases(tier):
    return 420 if tier == "quick" else 25000


def gen_case(rng, tier, index):
    if rng.random() < 0.06:
        return {"same_name_pair": True, "device": rng.choice(["evo", "fluent"]), "max_volume": rng.choice([950, 200, 100]),
                "opseed": rng.getrandbits(32), "twins": rng.random() < 0.5}
    vclass = rng.choice(["int", "quarter", "cent", "dirty"])
    wl = gen.gen_worklist_cfg(rng)
    wl["max_volume"] = rng.choice([950, 200, 100, 50, 1000, 2.3, 333.3, 3.92, 12.7])
    wt = gen.gen_worktable(rng, vclass=vclass if vclass != "dirty" else "cent", limits=rng.choice(["loose", "loose", "wide"]),
                           need_trough=rng.random() < 0.6, small=True)
    if rng.random() < 0.12:
        wl["auto_split"] = False
    n_ops = rng.choice([5, 10, 20, 40, 150 if tier == "thorough" else 60])
    return {"worklist": wl, "worktable": wt, "n_ops": n_ops, "opseed": rng.getrandbits(48), "profile": "history", "vclass": vclass}


def _same_name_pair(ctx, case):
    """Two distinct labware objects that carry the same name (the library allows it): a transfer between
    them has two participants, each of which gets exactly one new entry; nothing earlier is touched."""
    import robotools

    rng = __import__("random").Random(case["opseed"])
    dev = case["device"]
    cls = robotools.EvoWorklist if dev == "evo" else robotools.FluentWorklist
    wl = cls(max_volume=case["max_volume"])
    A = robotools.Labware("plate", 2, 3, min_volume=0, max_volume=1e5, initial_volumes=5e4)
    B = robotools.Labware("plate", 2, 3, min_volume=0, max_volume=1e5, initial_volumes=10.0)
    for lw in (A, B):
        for i in range(rng.randint(1, 3)):
            lw.add("A01", 1.0 + i, label=f"earlier {i}")
    n = rng.randint(1, 4)
    ids = ["A01", "B01", "A02", "B02"][:n]
    vols = [rng.choice([10.0, 25.5, case["max_volume"] * 2.5, 0.0]) for _ in ids]
    if not any(v > 0 for v in vols):
        vols[0] = 12.0
    if case.get("twins"):
        # two plates of one kind that are, after the transfer, filled alike in every well
        ctx.count("same_name_pair_filled_alike_afterwards")
        A = robotools.Labware("plate", 2, 3, min_volume=0, max_volume=1e5, initial_volumes=500.0)
        B = robotools.Labware("plate", 2, 3, min_volume=0, max_volume=1e5, initial_volumes=500.0)
        for w, v in zip(ids, vols):
            A.add(w, 2 * v, label="ahead")
        for i in range(rng.randint(0, 2)):
            A.add("B03", 1.0 + i, label=f"earlier {i}")
            B.add("B03", 1.0 + i, label=f"earlier {i}")
    pre = {id(x): snap(x) for x in (A, B)}
    exc = None
    try:
        wl.transfer(A, ids, B, ids, vols, label="pair")
    except Exception as e:
        exc = e
    ctx.count("same_name_pair_transfers")
    det = lambda: {"device": dev, "wells": ids, "volumes": vols, "raised": repr(exc),
                   "source_history": [(e[0], e.tolist()) for e in snap(A)], "destination_history": [(e[0], e.tolist()) for e in snap(B)]}
    ctx.case(case, True)
    if exc is not None:
        ctx.count("same_name_pair_refused")
        return
    for lw, role in ((A, "source"), (B, "destination")):
        post = snap(lw)
        keep = len(pre[id(lw)])
        ctx.check("earlier_entries_unchanged", len(post) >= keep and post[:keep] == pre[id(lw)], lambda: dict(det(), labware=role))
        ctx.check("exactly_one_entry_per_operation_and_labware", len(post) - keep == 1, lambda: dict(det(), labware=role, new_entries=len(post) - keep))
        if len(post) > keep:
            ctx.check("newest_entry_equals_current_volumes", np.array_equal(np.array(post[-1].tolist()), lw.volumes), lambda: dict(det(), labware=role))


def run_case(ctx, case):
    if case.get("same_name_pair"):
        return _same_name_pair(ctx, case)
    mon = HistoryMonitor(ctx)
    eng = hist.Engine(ctx, case, [mon])
    eng.run()
    c2 = {k: case[k] for k in ("worklist", "worktable", "n_ops", "opseed")}
    ctx.case(c2, mon.nontrivial, sample=dict(c2, executed_operations_tail=eng.tail(4)))


def gates(stats, tier):
    c = stats["counters"]
    r = []
    for k in ("rule:earlier_entries_unchanged", "rule:exactly_one_entry_per_operation_and_labware", "rule:newest_entry_equals_current_volumes",
              "rule:entry_labelled_with_operation_label", "rule:reported_large_volume_steps_equal_extra_pairs",
              "rule:arrays_handed_out_earlier_are_snapshots", "rule:report_lists_same_entries_in_order",
              "rule:operation_moving_nothing_adds_at_most_one_entry", "rule:non_participating_labware_gets_no_entry",
              "operation_moved_nothing:transfer", "same_labware_transfer", "split_transfer_labelled",
              "append_only_checked_after_rejected_operation", "accepted:distribute", "accepted:transfer", "accepted:add",
              "accepted:remove", "accepted:aspirate", "accepted:dispense"):
        if not c.get(k):
            r.append(f"never evaluated/observed: {k}")
    if stats["distinct_nontrivial"] < (50 if tier == "quick" else 1000):
        r.append("too few distinct non-trivial cases")
    return r
