"""C08 - well numbering is column-major, 1-based and device-specific for troughs."""
from __future__ import annotations

import numpy as np

from .. import gwl

ID = "C08"
TITLE = "Well numbering is column-major, 1-based, and device-specific for troughs"
LEVEL = "exploration"
TECHNIQUE = (
    "runtime monitoring: closed-formula oracle on every well of every geometry (exhaustive grid), "
    "independent record parser on emitted A/D records, must-raise monitor for unknown well ids"
)
ATTACH = ()
RULE = (
    "cases = (a) one labware geometry (plate rows x columns, or trough virtual_rows x columns): every well is "
    "looked up through Labware.wells/.indices/.positions, both get_well_position functions, make_well_array, "
    "make_well_index_dict and through the A/D records emitted by aspirate/dispense on both devices; "
    "(b) record-emission samples with random well subsets through aspirate/dispense/transfer; "
    "(c) must-raise calls naming an unknown well id (aspirate, dispense, transfer source/destination side, "
    "distribute, evo_aspirate, evo_dispense). A geometry case is non-trivial when rows >= 2 and columns >= 2 "
    "(troughs: virtual rows >= 2); every must-raise call is non-trivial; distinct = distinct input hashes"
)
ASSUMPTIONS = [
    "the oracle's closed formulas (1 + c*rows + r; EVO trough 1 + c*virtual_rows + vr; Fluent trough 1 + c) and "
    "its own id formula (row letter + column number padded to two digits) are the reference",
    "rows > 26 are outside the domain (no row letter exists); columns go up to 120 in the exhaustive grid",
    "get_well_position called directly with an unknown id is counted, not judged (the statement speaks about "
    "operations); the Fluent trough numbering deliberately ignores the row letter",
    "for a call whose unknown id is not the first of several wells only the refusal and the absence of records "
    "are judged; volumes are judged for calls in which the unknown id is the first or only well",
    "records other than A/D/R/script (comments, wash, break) appended by a refused call are counted, not judged",
]
EXHAUSTIVE = (
    "thorough: plates rows 1..26 x columns 1..120 and troughs virtual_rows 1..26 x columns 1..24, every well, "
    "both devices; quick: plates rows 1..26 x columns {1,2,9,10,11,12,24,99,100} and all troughs"
)

ROWS = "ABCDEFGHIJKLMNOPQRSTUVWXYZ"
QUICK_COLUMNS = (1, 2, 9, 10, 11, 12, 24, 99, 100)
THOROUGH_COLUMNS = tuple(range(1, 121))
TROUGH_COLUMNS = tuple(range(1, 25))
BAD_CLASSES = (
    "row_Z", "col_0", "col_over", "letter_only", "digits_only", "double_letter", "lower", "row_beyond", "padding",
    "trailing_nul",
)
KEY_NUL = "C08.trailing_nul_lost_in_numpy_array"
OPS = ("aspirate", "dispense", "transfer_src", "transfer_dst", "distribute", "transfer_within_src", "transfer_within_dst",
       "evo_aspirate", "evo_dispense")
FORMS = ("scalar", "list1", "bad_first", "bad_last")

KEY_TRANSFER = "C08.transfer_aspirates_before_destination_check"
KEY_DISTRIBUTE = "C08.distribute_emit_before_check"


# ---------------------------------------------------------------------------------------------
# the oracle's own formulas
# ---------------------------------------------------------------------------------------------
def wid(r: int, c: int) -> str:
    return "%s%02d" % (ROWS[r], c + 1)


def geometry_list(tier):
    """All geometries of the exhaustive grid of a tier, largest first (for balanced sharding)."""
    cols = QUICK_COLUMNS if tier == "quick" else THOROUGH_COLUMNS
    g = [{"kind": "geometry", "lw": {"kind": "plate", "rows": r, "columns": c}} for r in range(1, 27) for c in cols]
    g += [
        {"kind": "geometry", "lw": {"kind": "trough", "virtual_rows": v, "columns": c}}
        for v in range(1, 27)
        for c in TROUGH_COLUMNS
    ]
    g.sort(key=lambda k: (-_n_ids(k["lw"]), k["lw"]["kind"], _nr(k["lw"]), k["lw"]["columns"]))
    return g


def _nr(lw):
    return lw["virtual_rows"] if lw["kind"] == "trough" else lw["rows"]


def _n_ids(lw):
    return _nr(lw) * lw["columns"]


def expected_position(lw, device, r, c):
    if lw["kind"] == "trough":
        return 1 + c if device == "fluent" else 1 + c * lw["virtual_rows"] + r
    return 1 + c * lw["rows"] + r


def _build(lw, name, initial):
    import robotools

    if lw["kind"] == "trough":
        if (lw["virtual_rows"] + lw["columns"]) % 3 == 0:
            # the still-supported legacy construction of a trough (a Labware with virtual rows that is
            # not an instance of Trough) - one third of the trough geometries, deterministically
            return robotools.Labware(
                name, 1, lw["columns"], min_volume=0, max_volume=10_000_000, initial_volumes=initial,
                virtual_rows=lw["virtual_rows"],
            )
        return robotools.Trough(
            name, lw["virtual_rows"], lw["columns"], min_volume=0, max_volume=10_000_000, initial_volumes=initial
        )
    return robotools.Labware(
        name, lw["rows"], lw["columns"], min_volume=0, max_volume=10_000_000, initial_volumes=initial
    )


def _companion(lw):
    """The labware of the same visible shape (rows x columns of well IDs) but of the other kind."""
    if lw["kind"] == "trough":
        return {"kind": "plate", "rows": lw["virtual_rows"], "columns": lw["columns"]}
    return {"kind": "trough", "virtual_rows": lw["rows"], "columns": lw["columns"]}


def _worklist(device):
    import robotools

    cls = robotools.EvoWorklist if device == "evo" else robotools.FluentWorklist
    return cls(None, max_volume=950, auto_split=True)


def _nontrivial_geometry(lw):
    return _nr(lw) >= 2 and (lw["kind"] == "trough" or lw["columns"] >= 2)


# ---------------------------------------------------------------------------------------------
# generation
# ---------------------------------------------------------------------------------------------
def n_cases(tier):
    return 6000 if tier == "quick" else 60000


def _gen_lw(rng, small=False):
    if rng.random() < 0.4:
        return {"kind": "trough", "virtual_rows": rng.choice([1, 1, 2, 3, 4, 6, 8, 12, 16, 25, rng.randint(1, 26)]),
                "columns": rng.choice([1, 1, 2, 3, 4, 9, 10, rng.randint(1, 24)])}
    if small:
        r, c = rng.choice([(1, 1), (1, 6), (5, 1), (2, 3), (3, 2), (4, 6), (8, 12), (5, 9), (5, 10), (7, 11),
                           (rng.randint(1, 25), rng.randint(1, 30))])
    else:
        r, c = rng.choice([(8, 12), (16, 24), (4, 6), (1, 1), (1, 12), (8, 1), (26, 3), (5, 7),
                           (rng.randint(1, 26), rng.randint(1, 120)), (rng.randint(1, 26), rng.randint(95, 120))])
    return {"kind": "plate", "rows": r, "columns": c}


def _bad_id(rng, lw, cls):
    """An id that does not exist in the geometry, or None if the class does not apply."""
    nr, nc = _nr(lw), lw["columns"]
    r, c = rng.randrange(nr), rng.randrange(nc)
    if cls == "row_Z":
        return None if nr >= 26 else "Z%02d" % (c + 1)
    if cls == "col_0":
        return "%s00" % ROWS[r]
    if cls == "col_over":
        return "%s%02d" % (ROWS[r], nc + 1)
    if cls == "letter_only":
        return ROWS[r]
    if cls == "digits_only":
        return "%02d" % (c + 1)
    if cls == "double_letter":
        return "%s%s%02d" % (ROWS[r], ROWS[r], c + 1)
    if cls == "lower":
        return "%s%02d" % (ROWS[r].lower(), c + 1)
    if cls == "row_beyond":
        return None if nr >= 26 else "%s%02d" % (ROWS[nr], c + 1)
    if cls == "trailing_nul":
        # an existing id followed by NUL characters (a fixed-width field read from a binary file)
        return "%s%02d" % (ROWS[r], c + 1) + "\x00" * rng.choice([1, 1, 3])
    if cls == "padding":
        if c + 1 < 10 and rng.random() < 0.5:
            return "%s%d" % (ROWS[r], c + 1)
        return "%s0%02d" % (ROWS[r], c + 1)
    raise ValueError(cls)


def gen_case(rng, tier, index):
    kind = rng.choice(["unknown"] * 6 + ["emit"] * 3 + ["geometry"])
    if kind == "geometry":
        lw = _gen_lw(rng)
        if lw["kind"] == "plate" and lw["rows"] * lw["columns"] > 800:
            lw["rows"] = rng.randint(1, 6)
        return {"kind": "geometry", "lw": lw}
    device = rng.choice(["evo", "fluent"])
    if kind == "emit" and rng.random() < 0.08:
        # one long-lived worklist, many short-lived labware objects (a stack of plates handled one after the other
        # by a helper function that creates the plate, pipettes into it and returns), or one labware object that
        # is written out for both robots
        items = []
        for _ in range(rng.randint(3, 14)):
            g = _gen_lw(rng, small=True)
            if g["kind"] == "plate" and g["rows"] * g["columns"] > 400:
                g = {"kind": "plate", "rows": 4, "columns": 6}
            items.append({"lw": g, "well": [rng.randrange(_nr(g)), rng.randrange(g["columns"])], "op": rng.choice(["aspirate", "dispense"])})
        return {"kind": "stack", "device": device, "items": items, "both_devices": rng.random() < 0.4}
    if kind == "emit":
        lw = _gen_lw(rng, small=rng.random() < 0.6)
        ids = [(r, c) for c in range(lw["columns"]) for r in range(_nr(lw))]
        k = rng.randint(1, min(len(ids), 12))
        picks = rng.sample(ids, k)
        if rng.random() < 0.3:
            picks.append(rng.choice(picks))  # a repeated well
        op = rng.choice(["aspirate", "dispense", "transfer_src", "transfer_dst", "distribute_dst"])
        if op == "distribute_dst":
            # one reagent-distribution record names its destinations by position: one named well per cavity
            # (for a trough: any one of the virtual rows of a column)
            seen, uniq = set(), []
            for (r, c) in picks:
                key = (0, c) if lw["kind"] == "trough" else (r, c)
                if key not in seen:
                    seen.add(key)
                    uniq.append((r, c))
            return {"kind": "emit", "device": device, "lw": lw, "op": op, "wells": [list(p) for p in uniq], "array": rng.random() < 0.4}
        if rng.random() < 0.15:
            # the same rack label for two labware objects of different geometry on one worklist;
            # the second object is addressed through well IDs the first one was addressed through too
            other = _gen_lw(rng, small=True)
            common = [(r, c) for (r, c) in ids if r < _nr(other) and c < other["columns"]]
            if common and (lw["kind"], _nr(lw), lw["columns"]) != (other["kind"], _nr(other), other["columns"]):
                picks2 = rng.sample(common, min(len(common), rng.randint(1, 6)))
                return {"kind": "emit", "relabel": True, "device": device, "lw": lw, "other": other,
                        "op": rng.choice(["aspirate", "dispense"]), "wells": [list(p) for p in picks2],
                        "other_wells": [list(p) for p in picks2]}
        case = {"kind": "emit", "device": device, "lw": lw, "op": op, "wells": [list(p) for p in picks],
                "array": rng.random() < 0.4}
        if rng.random() < 0.3:
            # the same worklist has just handled a labware of the same visible shape but of the other kind (a trough
            # with as many virtual rows as the plate has rows, or the other way round), through the same well IDs
            case["companion_first"] = rng.choice(["aspirate", "dispense", "distribute"])
        if op.startswith("transfer") and rng.random() < 0.3:
            other = _companion(lw)
            case["other"] = other
            case["other_wells"] = [list(p) for p in picks]
            return case
        if op.startswith("transfer"):
            other = _gen_lw(rng, small=True)
            oids = [(r, c) for c in range(other["columns"]) for r in range(_nr(other))]
            case["other"] = other
            case["other_wells"] = [list(rng.choice(oids)) for _ in picks]
        return case
    # unknown id
    for _ in range(50):
        lw = _gen_lw(rng, small=True)
        cls = rng.choice(BAD_CLASSES)
        bad = _bad_id(rng, lw, cls)
        if bad is not None:
            break
    else:
        cls = "col_0"
        bad = _bad_id(rng, lw, cls)
    ops = OPS if device == "evo" else OPS[:7]
    op = rng.choice(ops)
    form = rng.choice(FORMS)
    if op.startswith("transfer") and not op.startswith("transfer_within"):
        form = rng.choice(["scalar", "list1"])
    if op == "distribute" and form == "scalar":
        form = "list1"
    nr, nc = _nr(lw), lw["columns"]
    good = [rng.randrange(nr), rng.randrange(nc)]
    if op.startswith("evo_"):
        # the second well of an EVO script command must lie in the same column as the first one
        good = [rng.randrange(nr), 0]
    case = {"kind": "unknown", "device": device, "lw": lw, "op": op, "cls": cls, "bad": bad, "form": form,
            "good": good, "label": rng.choice([None, None, "step"])}
    if rng.random() < 0.2:
        # nothing is to be pipetted at the unknown well (volume 0 for that entry): the id is still unknown
        case["zero"] = True
        if op in ("transfer_src", "transfer_dst"):
            case["form"] = rng.choice(FORMS)
    return case


# ---------------------------------------------------------------------------------------------
# (a) geometry: every well through every mapping
# ---------------------------------------------------------------------------------------------
def _first(bad, n=5):
    return bad[:n]


def _run_geometry(ctx, case):
    import robotools
    from robotools import evotools, fluenttools

    lw = case["lw"]
    trough = lw["kind"] == "trough"
    nr, nc = _nr(lw), lw["columns"]
    n = nr * nc
    ctx.case(case, _nontrivial_geometry(lw))
    ctx.feature("rows", nr)
    ctx.feature("kind", lw["kind"])
    if nc >= 100:
        ctx.count("geometry_with_column_ge_100")
    if nr == 1:
        ctx.count("geometry_single_row")
    if nc == 1:
        ctx.count("geometry_single_column")
    ctx.count("geometries:" + lw["kind"])
    geo = {"labware": lw}

    try:
        obj = _build(lw, "L", 1000.0)
    except Exception as e:  # the domain is valid: construction must succeed
        ctx.check("valid_geometry_is_constructible", False, {"labware": lw, "raised": repr(e)})
        return
    ctx.check("valid_geometry_is_constructible", True)

    wells = obj.wells
    indices = obj.indices
    positions = obj.positions
    evo_gwp = evotools.get_well_position
    flu_gwp = fluenttools.get_well_position
    shape_ok = tuple(np.shape(wells)) == (nr, nc)
    ctx.check("wells_shape_is_rows_by_columns", shape_ok, lambda: dict(geo, shape=list(np.shape(wells))))
    ctx.check("indices_has_one_entry_per_id", len(indices) == n, lambda: dict(geo, size=len(indices)))
    ctx.check("positions_has_one_entry_per_id", len(positions) == n, lambda: dict(geo, size=len(positions)))
    try:
        # what the helpers return belongs to the caller: an earlier caller that edited its copy must not
        # change what later callers get for the same geometry
        scratch_arr = robotools.make_well_array(nr, nc)
        scratch_idx = robotools.make_well_index_dict(nr, nc)
        if isinstance(scratch_arr, np.ndarray) and scratch_arr.size:
            scratch_arr[...] = "X00"
        if isinstance(scratch_idx, dict) and scratch_idx:
            scratch_idx.pop(next(iter(scratch_idx)))
            scratch_idx["alias"] = (0, 0)
        arr = robotools.make_well_array(nr, nc)
        idx = robotools.make_well_index_dict(nr, nc)
        helper_exc = None
    except Exception as e:
        arr, idx, helper_exc = None, None, e
    ctx.check("well_array_helpers_accept_geometry", helper_exc is None, lambda: dict(geo, raised=repr(helper_exc)))
    if arr is not None:
        ctx.check("make_well_array_shape", tuple(np.shape(arr)) == (nr, nc), lambda: dict(geo, shape=list(np.shape(arr))))
        ctx.check("make_well_index_dict_size", len(idx) == n, lambda: dict(geo, size=len(idx)))

    bad = {k: [] for k in ("wells", "indices", "positions", "evo", "fluent", "array", "index_dict")}
    seen_ids = set()
    evo_positions = set()
    fluent_positions = set()
    index_values = set()
    for c in range(nc):
        for r in range(nr):
            w = wid(r, c)
            seen_ids.add(w)
            p_evo = 1 + c * nr + r  # plates and EVO troughs (nr = virtual rows there)
            p_flu = 1 + c if trough else p_evo
            want_idx = (0, c) if trough else (r, c)
            if shape_ok and wells[r, c] != w:
                bad["wells"].append([r, c, w, str(wells[r, c])])
            got = indices.get(w)
            if got is None or tuple(got) != want_idx:
                bad["indices"].append([w, list(want_idx), None if got is None else list(got)])
            else:
                index_values.add(tuple(got))
            got = positions.get(w)
            if got != p_evo or isinstance(got, bool):
                bad["positions"].append([w, p_evo, got])
            try:
                got = evo_gwp(obj, w)
            except Exception as e:
                got = repr(e)
            if isinstance(got, str) or got != p_evo:
                bad["evo"].append([w, p_evo, got])
            else:
                evo_positions.add(int(got))
            try:
                got = flu_gwp(obj, w)
            except Exception as e:
                got = repr(e)
            if isinstance(got, str) or got != p_flu:
                bad["fluent"].append([w, p_flu, got])
            else:
                fluent_positions.add(int(got))
            if arr is not None:
                if tuple(np.shape(arr)) == (nr, nc) and arr[r, c] != w:
                    bad["array"].append([r, c, w, str(arr[r, c])])
                got = idx.get(w)
                if got is None or tuple(got) != (r, c):
                    bad["index_dict"].append([w, [r, c], None if got is None else list(got)])
    ctx.count("well_positions_checked", n)
    ctx.count("well_positions_checked:" + lw["kind"], n)
    ctx.check("wells_attribute_matches_id_formula", not bad["wells"], lambda: dict(geo, mismatches=_first(bad["wells"])))
    ctx.check("indices_attribute_matches_row_column", not bad["indices"], lambda: dict(geo, mismatches=_first(bad["indices"])))
    ctx.check("positions_attribute_matches_formula", not bad["positions"], lambda: dict(geo, mismatches=_first(bad["positions"])))
    ctx.check("evo_get_well_position_matches_formula", not bad["evo"], lambda: dict(geo, mismatches=_first(bad["evo"])))
    ctx.check("fluent_get_well_position_matches_formula", not bad["fluent"], lambda: dict(geo, mismatches=_first(bad["fluent"])))
    if arr is not None:
        ctx.check("make_well_array_matches_id_formula", not bad["array"], lambda: dict(geo, mismatches=_first(bad["array"])))
        ctx.check("make_well_index_dict_matches_row_column", not bad["index_dict"], lambda: dict(geo, mismatches=_first(bad["index_dict"])))
    # bijections (on the real wells for the Fluent trough numbering and the trough indices)
    ctx.check("ids_are_distinct", len(seen_ids) == n, geo)
    if not bad["evo"]:
        ctx.check("evo_positions_are_a_bijection_onto_1_n", evo_positions == set(range(1, n + 1)), geo)
    if not bad["fluent"]:
        want = set(range(1, (nc if trough else n) + 1))
        ctx.check("fluent_positions_are_a_bijection_onto_real_wells", fluent_positions == want, geo)
    if not bad["indices"]:
        want = {(0, c) for c in range(nc)} if trough else {(r, c) for r in range(nr) for c in range(nc)}
        ctx.check("indices_cover_exactly_the_real_wells", index_values == want, geo)
    # three-way consistency of the attributes themselves (id -> index -> id, id -> position -> id)
    if shape_ok and not trough:
        try:
            ok = all(wells[tuple(i)] == w for w, i in indices.items())
        except Exception:
            ok = False
        ctx.check("wells_and_indices_are_inverse", ok, geo)
    if shape_ok:
        flat = [str(x) for x in wells.T.reshape(-1)]  # column-major reading of the id array
        ok = len(flat) == n and all(positions.get(w) == k + 1 for k, w in enumerate(flat))
        ctx.check("positions_enumerate_wells_column_major", ok, geo)

    # emitted records: every id through aspirate and dispense on both devices
    ids = [wid(r, c) for c in range(nc) for r in range(nr)]
    for device in ("evo", "fluent"):
        want = [expected_position(lw, device, r, c) for c in range(nc) for r in range(nr)]
        for op in ("aspirate", "dispense"):
            wl = _worklist(device)
            try:
                getattr(wl, op)(obj, list(ids), 1.0)
                exc = None
            except Exception as e:
                exc = e
            if not ctx.check("valid_ids_are_accepted", exc is None, lambda: dict(geo, device=device, op=op, raised=repr(exc))):
                continue
            mism = []
            recs = list(wl)
            t = "A" if op == "aspirate" else "D"
            if len(recs) != n:
                mism.append(["record_count", n, len(recs)])
            else:
                for k, rec in enumerate(recs):
                    parts = rec.split(";")
                    if len(parts) != 11 or parts[0] != t or parts[1] != "L" or parts[4] != str(want[k]):
                        mism.append([ids[k], t, want[k], rec])
                        if len(mism) >= 5:
                            break
                # strict, independent parse of a sample (first, last, every 97th)
                for k in sorted({0, n - 1} | set(range(0, n, 97))):
                    try:
                        f = gwl.parse(recs[k])
                        if f.type != t or f.f["position"] != want[k] or f.f["label"] != "L":
                            mism.append([ids[k], t, want[k], recs[k]])
                    except gwl.GrammarError as e:
                        mism.append([ids[k], "grammar", repr(e), recs[k]])
            ctx.count("record_positions_checked", n)
            ctx.count("record_positions_checked:" + device, n)
            ctx.check(
                "record_position_field_matches_formula",
                not mism,
                lambda: dict(geo, device=device, op=op, mismatches=_first(mism)),
            )


# ---------------------------------------------------------------------------------------------
# (b) record-emission samples
# ---------------------------------------------------------------------------------------------
def _wells_arg(ids, as_array):
    return np.array(ids) if as_array else list(ids)


def _run_relabel(ctx, case):
    """Two labware objects that share a rack label but differ in geometry, used on ONE worklist."""
    device = case["device"]
    wl = _worklist(device)
    ctx.case(case, True)
    ctx.count("same_label_two_geometries")
    for lw, picks in ((case["lw"], case["wells"]), (case["other"], case["other_wells"])):
        obj = _build(lw, "Samples", 100000.0)
        n0 = len(wl)
        ids = [wid(r, c) for r, c in picks]
        exc = None
        try:
            getattr(wl, case["op"])(obj, ids, 1.0)
        except Exception as e:
            exc = e
        if not ctx.check("valid_ids_are_accepted", exc is None, lambda: {"case": case, "raised": repr(exc)}):
            return
        got = [gwl.parse(r).f["position"] for r in list(wl)[n0:] if r[:2] in ("A;", "D;")]
        want = [expected_position(lw, device, r, c) for r, c in picks]
        ctx.check("record_position_field_matches_formula", got == want,
                  lambda: {"case": case, "geometry": lw, "expected": want, "emitted": got, "records": list(wl)})


def _run_emit(ctx, case):
    if case.get("relabel"):
        return _run_relabel(ctx, case)
    lw, device, op = case["lw"], case["device"], case["op"]
    picks = [tuple(p) for p in case["wells"]]
    ids = [wid(r, c) for r, c in picks]
    vols = [float(i + 1) for i in range(len(ids))]  # distinct volumes identify the records
    ctx.case(case, _nontrivial_geometry(lw))
    ctx.count("emit:" + op)
    ctx.count("emit_device:" + device)
    ctx.feature("emit_kind", lw["kind"] + ":" + device)
    obj = _build(lw, "L", 100000.0)
    wl = _worklist(device)
    det = lambda extra=None: dict({"case": case, "records": list(wl)}, **(extra or {}))
    expected = []
    n_before = 0
    if case.get("companion_first"):
        comp = _companion(lw)
        cobj = _build(comp, "Companion", 100000.0)
        cop = case["companion_first"]
        cexc = None
        cids = list(dict.fromkeys(ids))
        try:
            if cop == "distribute":
                tr = _build({"kind": "trough", "virtual_rows": 2, "columns": 1}, "Reservoir", 100000.0)
                seen_c, cdst = set(), []
                for (r, c) in picks:
                    k_ = (0, c) if comp["kind"] == "trough" else (r, c)
                    if k_ not in seen_c:
                        seen_c.add(k_)
                        cdst.append(wid(r, c))
                wl.distribute(tr, 0, cobj, cdst, volume=1.0)
            else:
                getattr(wl, cop)(cobj, cids, 1.0)
        except Exception as e:
            cexc = e
        ctx.count("companion_of_same_shape_other_kind_handled_first")
        if not ctx.check("valid_ids_are_accepted", cexc is None, lambda: det({"companion": comp, "raised": repr(cexc)})):
            return
        if cop != "distribute":
            cgot = [gwl.parse(r_).f["position"] for r_ in list(wl) if r_[:2] in ("A;", "D;")]
            cwant = [expected_position(comp, device, *rc) for rc in dict.fromkeys(picks)]
            ctx.check("record_position_field_matches_formula", cgot == cwant,
                      lambda: det({"companion": comp, "expected": cwant, "emitted": cgot}))
        n_before = len(wl)
    if op == "distribute_dst":
        return _run_emit_distribute(ctx, case, obj, wl, picks, ids, det, n_before)
    try:
        if op in ("aspirate", "dispense"):
            getattr(wl, op)(obj, _wells_arg(ids, case.get("array")), vols if not case.get("array") else np.array(vols))
            t = "A" if op == "aspirate" else "D"
            expected = [(t, "L", expected_position(lw, device, r, c), v) for (r, c), v in zip(picks, vols)]
        else:
            other = case["other"]
            oobj = _build(other, "O", 100000.0)
            opicks = [tuple(p) for p in case["other_wells"]]
            oids = [wid(r, c) for r, c in opicks]
            if op == "transfer_src":
                wl.transfer(obj, _wells_arg(ids, case.get("array")), oobj, oids, vols)
                for (r, c), (orow, oc), v in zip(picks, opicks, vols):
                    expected.append(("A", "L", expected_position(lw, device, r, c), v))
                    expected.append(("D", "O", expected_position(other, device, orow, oc), v))
            else:
                wl.transfer(oobj, oids, obj, _wells_arg(ids, case.get("array")), vols)
                for (r, c), (orow, oc), v in zip(picks, opicks, vols):
                    expected.append(("A", "O", expected_position(other, device, orow, oc), v))
                    expected.append(("D", "L", expected_position(lw, device, r, c), v))
        exc = None
    except Exception as e:
        exc = e
    if not ctx.check("valid_ids_are_accepted", exc is None, lambda: det({"raised": repr(exc)})):
        return
    got = []
    for rec in list(wl)[n_before:]:
        try:
            f = gwl.parse(rec)
        except gwl.GrammarError as e:
            ctx.check("emitted_record_parses", False, lambda: det({"record": rec, "error": repr(e)}))
            return
        if f.type in ("A", "D"):
            got.append((f.type, f.f["label"], f.f["position"], float(f.f["volume"])))
    ctx.check("emitted_record_parses", True)
    ctx.count("record_positions_checked", len(got))
    ctx.count("record_positions_checked:" + device, len(got))
    if op in ("aspirate", "dispense"):
        ok = got == expected
    else:
        ok = sorted(got) == sorted(expected)  # transfer reorders by column; volumes identify the pairs
    ctx.check(
        "record_position_field_matches_formula",
        ok,
        lambda: det({"expected": [list(e) for e in expected], "observed": [list(g) for g in got]}),
    )


def _run_emit_distribute(ctx, case, obj, wl, picks, ids, det, n_before=0):
    """The destination positions of the R record(s) of one distribute call are those of the named wells."""
    lw, device = case["lw"], case["device"]
    src = _build({"kind": "trough", "virtual_rows": 4, "columns": 2}, "S", 1e7)
    try:
        wl.distribute(src, 1, obj, _wells_arg(ids, case.get("array")), volume=1.0)
        exc = None
    except Exception as e:
        exc = e
    if not ctx.check("valid_ids_are_accepted", exc is None, lambda: det({"raised": repr(exc)})):
        return
    named = sorted(expected_position(lw, device, r, c) for r, c in picks)
    addressed = []
    for rec in list(wl)[n_before:]:
        try:
            f = gwl.parse(rec)
        except gwl.GrammarError as e:
            ctx.check("emitted_record_parses", False, lambda: det({"record": rec, "error": repr(e)}))
            return
        if f.type == "R":
            addressed += [p for p in range(f.f["dst_start"], f.f["dst_end"] + 1) if p not in f.f["exclude"]]
    ctx.check("emitted_record_parses", True)
    ctx.count("record_positions_checked", len(addressed))
    ctx.count("record_positions_checked:" + device, len(addressed))
    ctx.check("record_position_field_matches_formula", sorted(addressed) == named,
              lambda: det({"expected destination positions": named, "addressed by the R records": sorted(addressed)}))


# ---------------------------------------------------------------------------------------------
# (c) unknown ids
# ---------------------------------------------------------------------------------------------
def _pipetting(records):
    out = []
    for rec in records:
        if not isinstance(rec, str):
            out.append(rec)
        elif rec[:2] in ("A;", "D;", "R;") or (rec.startswith("B;") and len(rec) > 2):
            out.append(rec)
    return out


def _run_unknown(ctx, case):
    lw, device, op, bad, form = case["lw"], case["device"], case["op"], case["bad"], case["form"]
    nr, nc = _nr(lw), lw["columns"]
    # the id must really be unknown (guards the generator, never the code under test)
    valid = {wid(r, c) for r in range(nr) for c in range(nc)}
    if bad in valid:
        raise AssertionError(f"generator produced a valid id {bad!r}")
    ctx.case(case, True)
    good = wid(*case["good"])
    obj = _build(lw, "L", 5000.0)
    plate = _build({"kind": "plate", "rows": 2, "columns": 2}, "P", 5000.0)
    src = _build({"kind": "trough", "virtual_rows": 2, "columns": 2}, "S", 50000.0)
    wl = _worklist(device)
    if form == "scalar":
        wells = bad
    elif form == "list1":
        wells = [bad]
    elif form == "bad_first":
        wells = [bad, good]
    else:
        wells = [good, bad]
    nw = 1 if form in ("scalar", "list1") else 2
    if op not in OPS:
        raise ValueError(op)
    before = [o.volumes.copy() for o in (obj, plate, src)]
    label = case.get("label")
    V = 10.0
    if case.get("zero"):
        ctx.count("unknown_id_with_zero_volume")
        V = [0.0 if w == bad else 10.0 for w in wells] if isinstance(wells, list) and nw > 1 and op != "distribute" else 0.0
    exc = None
    try:
        if op == "aspirate":
            wl.aspirate(obj, wells, V, label=label)
        elif op == "dispense":
            wl.dispense(obj, wells, V, label=label)
        elif op == "transfer_src":
            wl.transfer(obj, wells, plate, "A01", V, label=label)
        elif op == "transfer_dst":
            wl.transfer(plate, "A01", obj, wells, V, label=label)
        elif op == "distribute":
            wl.distribute(src, 0, obj, wells, volume=V, label=label or "")
        elif op == "transfer_within_src":
            # source and destination are the SAME labware object; the unknown id is on the source side
            nd = 1 if not isinstance(wells, list) else len(wells)
            wl.transfer(obj, wells, obj, [good] * nd if isinstance(wells, list) else good, V, label=label or "within")
        elif op == "transfer_within_dst":
            nd = 1 if not isinstance(wells, list) else len(wells)
            wl.transfer(obj, [good] * nd if isinstance(wells, list) else good, obj, wells, V, label=label or "within")
        elif op == "evo_aspirate":
            wl.evo_aspirate(obj, wells if form != "scalar" else [bad], (10, 1), list(range(1, nw + 1)), V, "lc", label=label)
        elif op == "evo_dispense":
            wl.evo_dispense(obj, wells if form != "scalar" else [bad], (10, 1), list(range(1, nw + 1)), V, "lc", label=label)
    except Exception as e:
        exc = e
    records = list(wl)
    pip = _pipetting(records)
    after = [o.volumes.copy() for o in (obj, plate, src)]
    changed = [name for name, b, a in zip(("L", "P", "S"), before, after) if not np.array_equal(a, b)]
    det = lambda: {
        "device": device, "labware": lw, "operation": op, "wells": wells, "unknown_id": bad,
        "raised": repr(exc), "records": records, "labware_with_changed_volumes": changed,
    }
    ctx.count("unknown_calls:" + op)
    ctx.count("unknown_class:" + case["cls"])
    ctx.count("unknown_device:" + device)
    ctx.feature("unknown_kind", lw["kind"] + ":" + device + ":" + op)

    # mechanism keys (structure of the call and of the outcome only)
    key = None
    if exc is not None and len(pip) == 1 and isinstance(pip[0], str):
        parts = pip[0].split(";")
        if op == "transfer_dst" and parts[:2] == ["A", "P"] and parts[4:5] == ["1"] \
                and "L" not in changed and "S" not in changed:
            # exactly the aspirate of the (valid) source well was emitted before the destination was looked up
            key = KEY_TRANSFER
        if op == "distribute" and parts[:2] == ["R", "S"] and parts[6:7] == ["L"] and "P" not in changed:
            # exactly the R record was emitted before Labware.add looked the destination id up
            key = KEY_DISTRIBUTE

    if case["cls"] == "trailing_nul" and exc is None:
        # known finding K2: numpy's fixed-width strings drop trailing NULs, the operation sees the existing id
        key = KEY_NUL
    if ctx.check("unknown_id_raises", exc is not None, det, key=key if case["cls"] == "trailing_nul" else None):
        ctx.count("unknown_refused:" + op)
        ctx.count("unknown_refused_device:" + device)
        ctx.feature("unknown_exception", type(exc).__name__)
    ctx.check("unknown_id_emits_no_record", not pip, det, key=key)
    if len(records) != len(pip):
        ctx.count("non_pipetting_records_after_refusal", len(records) - len(pip))
    if form == "bad_last":
        if changed:
            ctx.count("unjudged:volumes_changed_before_a_later_unknown_id")
    elif changed:
        # the statement demands "raise without emitting a record"; it is silent about the tracked
        # volumes after the refusal (aspirate/dispense/distribute update the tracking before they
        # validate the remaining arguments), so this is observed, not judged
        ctx.count("unjudged:volumes_changed_by_refused_call")
    else:
        ctx.count("volumes_unchanged_by_refused_call")

    # the position helpers called directly: an ID that is not a well of the labware has no position
    # (the id -> position mapping is a bijection on the labware's own wells)
    from robotools import evotools, fluenttools

    for dev, fn in (("evo", evotools.get_well_position), ("fluent", fluenttools.get_well_position)):
        pos, hexc = None, None
        try:
            pos = fn(obj, bad)
        except Exception as e:
            hexc = e
        ctx.count(f"helper_{dev}_called_with_unknown_id")
        ctx.check(
            "position_helper_refuses_unknown_id",
            hexc is not None,
            lambda: dict(det(), helper=dev, returned=repr(pos)),
            key="C08.helper_accepts_unknown_id" if hexc is None else None,
        )


def run_case(ctx, case):
    kind = case["kind"]
    if kind == "geometry":
        _run_geometry(ctx, case)
    elif kind == "emit":
        _run_emit(ctx, case)
    elif kind == "unknown":
        _run_unknown(ctx, case)
    elif kind == "stack":
        _run_stack(ctx, case)
    else:
        raise ValueError(kind)


def _run_stack(ctx, case):
    """Positions depend on the labware addressed and on the device of the worklist - not on which labware or which
    worklist was used before (objects come and go; one labware may be written out for both robots)."""
    import gc

    device = case["device"]
    other = "fluent" if device == "evo" else "evo"
    wl = _worklist(device)
    wl2 = _worklist(other) if case.get("both_devices") else None
    ctx.case(case, True)
    ctx.count("stack_cases")
    for i, it in enumerate(case["items"]):
        g = it["lw"]
        r, c = it["well"]
        obj = _build(g, f"P{i:03d}", 100000.0)
        for w, dev in ((wl, device), (wl2, other)):
            if w is None:
                continue
            n0 = len(w)
            exc = None
            try:
                getattr(w, it["op"])(obj, wid(r, c), 7.0)
            except Exception as e:
                exc = e
            recs = [x for x in list(w)[n0:] if isinstance(x, str) and x[:2] in ("A;", "D;")]
            pos = None
            if len(recs) == 1:
                try:
                    pos = gwl.parse(recs[0]).f["position"]
                except gwl.GrammarError:
                    pos = None
            want = expected_position(g, dev, r, c)
            ctx.count("stack_positions_checked")
            ctx.check("record_position_field_matches_formula", exc is None and pos == want,
                      lambda: {"labware": g, "well": wid(r, c), "device": dev, "n_th_labware_on_this_worklist": i,
                               "also_used_by_the_other_device": wl2 is not None, "expected": want, "observed": pos,
                               "raised": repr(exc), "records": recs})
        del obj
        gc.collect()


# ---------------------------------------------------------------------------------------------
# exhaustive grid
# ---------------------------------------------------------------------------------------------
def extra(ctx):
    geos = geometry_list(ctx.tier)
    done = 0
    for i in range(ctx.shard, len(geos), ctx.nshards):
        case = geos[i]
        ctx.current_case = case
        run_case(ctx, case)
        done += 1
        ctx.count("exhaustive_geometries")
        ctx.count("exhaustive_well_positions", _n_ids(case["lw"]))
    # a deterministic sweep of the unknown-id classes x operations x devices on a few fixed geometries
    import random

    fixed = [
        {"kind": "plate", "rows": 2, "columns": 3},
        {"kind": "plate", "rows": 8, "columns": 12},
        {"kind": "plate", "rows": 1, "columns": 1},
        {"kind": "trough", "virtual_rows": 4, "columns": 3},
        {"kind": "trough", "virtual_rows": 1, "columns": 1},
        {"kind": "trough", "virtual_rows": 8, "columns": 1},
    ]
    combos = [
        (lw, device, op, cls)
        for lw in fixed
        for device in ("evo", "fluent")
        for op in (OPS if device == "evo" else OPS[:5])
        for cls in BAD_CLASSES
    ]
    for i in range(ctx.shard, len(combos), ctx.nshards):
        lw, device, op, cls = combos[i]
        rng = random.Random(f"C08-sweep-{i}")
        bad = _bad_id(rng, lw, cls)
        if bad is None:
            continue
        form = "list1" if op == "distribute" else "scalar"
        nr, nc = _nr(lw), lw["columns"]
        case = {"kind": "unknown", "device": device, "lw": lw, "op": op, "cls": cls, "bad": bad, "form": form,
                "good": [rng.randrange(nr), 0 if op.startswith("evo_") else rng.randrange(nc)], "label": None}
        ctx.current_case = case
        run_case(ctx, case)
        ctx.count("unknown_sweep_calls")
    if ctx.shard == 0:
        ctx.count("exhaustive_complete")
    ctx.current_case = None


def gates(stats, tier):
    c = stats["counters"]
    f = stats["features"]
    r = []
    geos = geometry_list(tier)
    want_g = len(geos)
    want_p = sum(_n_ids(g["lw"]) for g in geos)
    if c.get("exhaustive_geometries", 0) != want_g:
        r.append(f"exhaustive grid incomplete: {c.get('exhaustive_geometries', 0)} of {want_g} geometries")
    if c.get("exhaustive_well_positions", 0) != want_p:
        r.append(f"exhaustive grid incomplete: {c.get('exhaustive_well_positions', 0)} of {want_p} well positions")
    if c.get("well_positions_checked", 0) < want_p:
        r.append("fewer well positions checked than the exhaustive grid contains")
    if c.get("record_positions_checked", 0) < 4 * want_p:
        r.append("fewer record positions checked than 4 x the exhaustive grid (2 devices x aspirate/dispense)")
    deciding = (
        "wells_attribute_matches_id_formula", "indices_attribute_matches_row_column",
        "positions_attribute_matches_formula", "evo_get_well_position_matches_formula",
        "fluent_get_well_position_matches_formula", "make_well_array_matches_id_formula",
        "make_well_index_dict_matches_row_column", "evo_positions_are_a_bijection_onto_1_n",
        "fluent_positions_are_a_bijection_onto_real_wells", "indices_cover_exactly_the_real_wells",
        "positions_enumerate_wells_column_major", "record_position_field_matches_formula",
        "unknown_id_raises", "unknown_id_emits_no_record",
    )
    for k in deciding:
        if c.get("rule:" + k, 0) < want_g and not k.startswith("unknown"):
            r.append(f"rule {k} evaluated on fewer geometries than the grid contains")
        elif not c.get("rule:" + k):
            r.append(f"rule never evaluated: {k}")
    rows = set(f.get("rows", ()))
    if not set(range(1, 27)) <= rows:
        r.append("not every row count 1..26 observed")
    for k in ("geometry_with_column_ge_100", "geometry_single_row", "geometry_single_column",
              "geometries:plate", "geometries:trough", "record_positions_checked:evo",
              "record_positions_checked:fluent", "unknown_device:evo", "unknown_device:fluent",
              "emit:aspirate", "emit:dispense", "emit:transfer_src", "emit:transfer_dst"):
        if not c.get(k):
            r.append(f"never observed: {k}")
    for cls in BAD_CLASSES:
        if not c.get("unknown_class:" + cls):
            r.append(f"unknown-id class never observed: {cls}")
    for op in OPS:
        if not c.get("unknown_calls:" + op):
            r.append(f"unknown id never passed to: {op}")
    refused_ops = sum(1 for op in OPS if c.get("unknown_refused:" + op))
    if refused_ops < 4:
        r.append(f"unknown-id refusals observed through only {refused_ops} operations (>= 4 required)")
    for dev in ("evo", "fluent"):
        if not c.get("unknown_refused_device:" + dev):
            r.append(f"no unknown-id refusal observed on device {dev}")
    if stats["distinct_nontrivial"] < (50 if tier == "quick" else 1000):
        r.append("too few distinct non-trivial cases")
    return r
