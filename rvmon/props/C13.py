"""C13 - EVO script commands agree with the volume tracking and with their arguments.

Oracle for every accepted ``EvoWorklist.evo_aspirate`` / ``evo_dispense`` call: the appended
``B;Aspirate(...)`` / ``B;Dispense(...)`` record is read back with the independent grammar of
``rvmon.gwl``; ``gwl.script_effect`` applies EVOware's pairing rule (the selected tips in ascending
order serve the selected wells in ascending row order) and gives the volume the command moves per
(virtual) well.  That effect, summed per real well (all virtual rows of a trough column are one
well) and signed (aspirate negative), must equal the change of ``Labware.volumes`` around the call
to two decimals; the command must name the given liquid class, arm, grid and ``site - 1`` and a
selection of the labware's (virtual) dimensions.  Calls the statement names as inexpressible must
raise and must not leave a ``B;`` record.  ``evo_wash``: every decoded field of the ``B;Wash(...)``
record is compared with the argument given; every parameter outside its documented range / type
must be refused.
"""
from __future__ import annotations

import math
import re
from decimal import Decimal, InvalidOperation
from fractions import Fraction

import numpy as np

from .. import gwl
from ..attach import flat_f
from ..core import dec, enc
from ..world import well_id

ID = "C13"
TITLE = "EVO script commands agree with the volume tracking and with their arguments"
LEVEL = "exploration"
TECHNIQUE = (
    "runtime monitoring: independent decoder of the emitted B;Aspirate/B;Dispense/B;Wash record (EVOware "
    "tips-to-wells pairing rule) against the observed change of Labware.volumes and against the arguments given; "
    "must-reject oracle for the inexpressible calls"
)
ATTACH = ("labware", "worklist")
HOOK_RULES = ("ledger_exact", "unaddressed_unchanged", "monitor_error")
RULE = (
    "cases = one call of EvoWorklist.evo_aspirate / evo_dispense on a fresh plate (1..16 x 1..24) or trough "
    "(1..16 virtual rows x 1..4) and a fresh worklist (max_volume 950/200/1000, rarely 1e7 to reach the 7158278 "
    "bound) with 1..8 wells (one column ascending / descending / shuffled, with a repeat, or from several columns; "
    "as list, tuple, 1-D or 2-D array, single string), tips (ascending / descending / shuffled / repeated / with "
    "Tip.Any / other length; ints and Tip members mixed), a scalar volume or a per-tip list (uniform, non-uniform, "
    "other length, negative / NaN / inf / above the limits; up to 3 decimals), grid 0..68, site 0..129, arm -1..2 (rarely a float); "
    "or one call of evo_wash with every parameter given, one or two of them at / just beyond a range end or of a "
    "wrong type (float for int, str for a volume, None); plus an enumerated grid of all range ends. A case is non-trivial when it names >= 2 wells with "
    "non-uniform per-tip volumes; distinct = distinct hashes of the complete call description"
)
ASSUMPTIONS = [
    "the record grammar of rvmon.gwl.parse and the pairing rule of rvmon.gwl.script_effect (selected tips ascending "
    "serve the selected wells in ascending row order, slot i belongs to tip i+1) are the reference reading of an "
    "EVOware script command",
    "the oracle's own column-major flattening (rvmon.attach.flat_f) is the reference reading of array arguments",
    "'to two decimals' is judged as |command - tracking| <= 0.005 per addressed (virtual) well + 1e-6 float slack",
    "for orderings (wells not ascending, tips not ascending) and repeated wells only 'accepted => command and "
    "tracking agree' is demanded, never a refusal; a refusal of a fully canonical call is not a violation but makes "
    "the run inconclusive",
    "a float given for a documented int parameter (arm of all three commands, every int parameter of evo_wash) counts "
    "as out of its documented domain also when it is integer-valued (0.0, 1.0, 500.0)",
    "bool, numpy integers, invalid tip numbers (C10), unknown well ids, separators/quotes in the liquid class (C09) "
    "are not generated (the statement does not decide them); per-tip volumes given as tuple / array / 2-D block are generated, a refusal of them is not judged, an accepted call is judged like any other; labware state after a "
    "refused call is not judged (the tracking runs before the command is built; C03)",
    "evo_wash: the volume strings must be a decimal with at most one fractional digit within 0.05 of the argument; "
    "Tip.Any and invalid tip numbers are not generated for evo_wash",
]
EXHAUSTIVE = (
    "evo_wash: every parameter x {low end, high end, just below, just above, non-integer float / str, None, "
    "integer-valued float}; "
    "evo_aspirate/evo_dispense x plate/trough: grid {0,1,67,68} x site {0,1,128,129} x arm {-1,0,1,2}"
)

VOL_CAP = 7158278  # documented upper bound of a script-command volume
LCS = ["Water", "", "PowerSuck", "DMSO free dispense", "Water, wet contact", "Ethanol_70%", "LC-µL (1)",
       " DMSO contact wet", "Water free dispense ", "  ", "\tTabbed",
       # free text may contain the words the commands themselves are made of
       "Serum Aspirate slow", "Dispense_Z-max", "Wash Aspirate Dispense", "B;Aspirate"[2:] + " 2x"]
ANY = {"__tip__": "Any"}
_ID = re.compile(r"^([A-Z])([0-9]{2}|[1-9][0-9]{2,})$")
_ROWS = "ABCDEFGHIJKLMNOPQRSTUVWXYZ"

# evo_wash: documented ranges (name -> (low, high, kind))
WASH = {
    "waste_grid": (1, 67, "int"),
    "waste_site": (1, 128, "int"),
    "cleaner_grid": (1, 67, "int"),
    "cleaner_site": (1, 128, "int"),
    "arm": (0, 1, "int"),
    "waste_vol": (0, 100, "vol"),
    "waste_delay": (0, 1000, "int"),
    "cleaner_vol": (0, 100, "vol"),
    "cleaner_delay": (0, 1000, "int"),
    "airgap": (0, 100, "int"),
    "airgap_speed": (1, 1000, "int"),
    "retract_speed": (1, 100, "int"),
    "fastwash": (0, 1, "int"),
    "low_volume": (0, 1, "int"),
}
WASH_MODES = ("lo", "hi", "below", "above", "float", "none", "intfloat")


# ---------------------------------------------------------------------------------------------
# small independent helpers
# ---------------------------------------------------------------------------------------------
def _tipnum(m):
    """Tip number 1..8 of a valid member, 'any' for Tip.Any, None for everything else."""
    from robotools import Tip

    if isinstance(m, Tip):
        if m.name == "Any":
            return "any"
        if len(m.name) == 2 and m.name[0] == "T" and m.name[1] in "12345678":
            return int(m.name[1])
        return None
    if isinstance(m, bool):
        return None
    if isinstance(m, int) and 1 <= m <= 8:
        return m
    return None


def _rc(w):
    m = _ID.match(w) if isinstance(w, str) else None
    if not m:
        return None
    return _ROWS.index(m.group(1)), int(m.group(2)) - 1


def _isnum(v):
    return isinstance(v, (int, float)) and not isinstance(v, bool)


def _bad_volume(v, wlmax):
    """Class of an out-of-range volume or None."""
    if not _isnum(v):
        return "type"
    if isinstance(v, float) and math.isnan(v):
        return "nan"
    if v < 0:
        return "negative"
    if v > VOL_CAP:
        return "above_7158278"
    if v > wlmax:
        return "above_max_volume"
    return None


def _mem(rng, n):
    return n if rng.random() < 0.5 else {"__tip__": f"T{n}"}


# ---------------------------------------------------------------------------------------------
# generated part
# ---------------------------------------------------------------------------------------------
def n_cases(tier):
    return 30000 if tier == "quick" else 2000000


def _vol(rng, wlmax):
    cls = rng.choice(["int", "quarter", "cent", "milli", "milli", "small"])
    hi = int(min(wlmax, 1000))
    if cls == "int":
        v = rng.randint(0, hi)
        return v if rng.random() < 0.5 else float(v)
    if cls == "quarter":
        return rng.randint(0, hi * 4) / 4.0
    if cls == "cent":
        return rng.randint(0, hi * 100) / 100.0
    if cls == "milli":
        return rng.randint(0, hi * 1000) / 1000.0
    return rng.randint(0, 20000) / 1000.0


def _gen_wash(rng):
    p = {}
    for name, (lo, hi, kind) in WASH.items():
        if kind == "vol":
            p[name] = rng.choice([rng.randint(lo * 100, hi * 100) / 100.0, rng.randint(lo, hi), rng.randint(0, 100) / 10.0,
                                  rng.randint(0, 10000) / 1000.0])
        else:
            p[name] = rng.choice([lo, hi, rng.randint(lo, hi), rng.randint(lo, hi)])
    nper = rng.choice([0, 1, 1, 1, 2])
    for name in rng.sample(sorted(WASH), nper):
        p[name] = _wash_value(name, rng.choice(WASH_MODES), rng)
    if rng.random() < 0.2:
        # switches written the Python way: True / False are the integers 1 / 0
        for name in rng.sample([n for n, (lo, hi, kind) in WASH.items() if kind == "int" and lo == 0], rng.randint(1, 2)):
            p[name] = rng.choice([True, False])
    k = rng.randint(1, 8)
    nums = [rng.randint(1, 8) for _ in range(k)] if rng.random() < 0.3 else rng.sample(range(1, 9), k)
    tips = [_mem(rng, n) for n in nums]
    if rng.random() < 0.2:
        tips = {"__tuple__": tips}
    return {"ep": "evo_wash", "tips": tips, "p": p}


def _wash_value(name, mode, rng=None):
    lo, hi, kind = WASH[name]
    pick = (lambda xs: rng.choice(xs)) if rng is not None else (lambda xs: xs[0])
    if mode == "lo":
        return lo if kind == "int" else pick([lo, float(lo), 0.04])
    if mode == "hi":
        return hi if kind == "int" else pick([hi, float(hi), 99.96])
    if mode == "below":
        return lo - 1 if kind == "int" else pick([-0.1, -0.001, -1, -0.04])
    if mode == "above":
        return hi + 1 if kind == "int" else pick([100.1, 100.001, 101, 100.04])
    if mode == "float":
        # a non-integer float where an int is documented; for the volumes a string
        return pick([lo + 0.5, hi - 0.5, lo + 0.25]) if kind == "int" else pick(["3.0", "5"])
    if mode == "intfloat":
        # an integer-valued float inside the range: wrong type for the int parameters, valid for the volumes
        return pick([float(hi), float(lo)])
    return None


def gen_case(rng, tier, index):
    if rng.random() < 0.12:
        return _gen_wash(rng)
    ep = rng.choice(["evo_aspirate", "evo_dispense"])
    kind = rng.choice(["plate", "plate", "trough"])
    if kind == "plate":
        rows = rng.choice([1, 2, 3, 4, 6, 8, 8, 8, 12, 16, 16, rng.randint(1, 16)])
        cols = rng.choice([1, 2, 6, 12, 12, 24, rng.randint(1, 24)])
        if rng.random() < 0.05:
            # a strip / carrier with more than 100 columns (four-character well IDs; the selection header still has two
            # hex digits for up to 255 columns)
            rows, cols = rng.choice([1, 2, 4, 8]), rng.choice([101, 120, 200, 230, 255])
    else:
        rows = rng.choice([1, 2, 4, 8, 8, 8, 16, rng.randint(1, 16)])
        cols = rng.choice([1, 1, 2, 3, 4])
    big = rng.random() < 0.03
    wlmax = 10000000 if big else rng.choice([950, 950, 200, 1000])
    if ep == "evo_aspirate":
        lw = {"kind": kind, "rows": rows, "cols": cols, "initial": 1e8 if big else 1e5, "max": 1e10 if big else 1e6}
    else:
        lw = {"kind": kind, "rows": rows, "cols": cols, "initial": rng.choice([0, 0, 10.5]), "max": 1e10 if big else 1e6}

    # ---- wells
    wp = rng.choice(["asc", "asc", "asc", "asc", "desc", "desc", "shuffled", "shuffled", "repeat", "multicol"])
    col = rng.randrange(cols)
    if wp == "multicol" and cols < 2:
        wp = "asc"
    if wp == "repeat":
        k = rng.randint(2, 8)
        base = sorted(rng.sample(range(rows), min(rows, k - 1)))
        while len(base) < k:
            base.insert(rng.randint(0, len(base)), rng.choice(base))
        if rng.random() < 0.5:
            rng.shuffle(base)
        rcs = [(r, col) for r in base]
    else:
        k = rng.randint(1, min(8, rows)) if rng.random() < 0.85 else min(rows, rng.choice([1, 2, 8]))
        rws = sorted(rng.sample(range(rows), k))
        if wp == "desc":
            rws.reverse()
        elif wp == "shuffled":
            rng.shuffle(rws)
        rcs = [(r, col) for r in rws]
        if wp == "multicol":
            if k == 1:
                rcs.append((rng.randrange(rows), col))
                k = 2
            others = [c for c in range(cols) if c != col]
            if cols > 100 and rng.random() < 0.6:
                # the other column reads alike in its last two digits (column 1 and column 101)
                alike = [c for c in others if (c - col) % 100 == 0]
                others = alike or others
            j = rng.randrange(k)
            rcs[j] = (rcs[j][0], rng.choice(others))
            for i in range(k):
                if i != j and rng.random() < 0.3:
                    rcs[i] = (rcs[i][0], rng.choice(others))
    ids = [well_id(r, c) for r, c in rcs]
    k = len(ids)
    wf = rng.choice(["list", "list", "list", "tuple", "array", "2d", "str"])
    if wf == "str" and k != 1:
        wf = "list"
    if wf == "2d" and k < 2:
        wf = "array"
    if wf == "tuple":
        wells = {"__tuple__": ids}
    elif wf == "array":
        wells = enc(np.array(ids))
    elif wf == "2d":
        r_ = rng.choice([d for d in range(1, k + 1) if k % d == 0])
        c_ = k // r_
        wells = enc(np.array([[ids[j * r_ + i] for j in range(c_)] for i in range(r_)]))
    elif wf == "str":
        wells = ids[0]
    else:
        wells = list(ids)

    # ---- tips
    tp = rng.choice(["asc"] * 8 + ["desc", "desc", "shuffled", "shuffled", "repeat", "any", "len"])
    m = k
    if tp == "len":
        m = rng.choice([x for x in range(1, 9) if x != k])
    if tp == "repeat" and m < 2:
        tp = "asc"
    if tp == "repeat":
        nums = rng.sample(range(1, 9), m - 1)
        nums.insert(rng.randint(0, m - 1), rng.choice(nums))
        if rng.random() < 0.5:
            nums.sort()
    else:
        nums = sorted(rng.sample(range(1, 9), m))
        if tp == "desc":
            nums.reverse()
        elif tp == "shuffled":
            rng.shuffle(nums)
    tips = [_mem(rng, n) for n in nums]
    if tp == "any":
        j = rng.randrange(m)
        if rng.random() < 0.5 or m == 8:
            tips[j] = ANY
        else:
            tips.insert(j, ANY)
            tips.pop()
    if rng.random() < 0.15:
        tips = {"__tuple__": tips}

    # ---- volumes
    vp = rng.choice(["scalar", "scalar", "uniform", "nonuni", "nonuni", "nonuni", "nonuni", "twoval", "len", "bad", "edge"])
    if vp == "scalar":
        vol = _vol(rng, wlmax)
    elif vp == "uniform":
        vol = [_vol(rng, wlmax)] * k
    elif vp == "twoval":
        a, b = _vol(rng, wlmax), _vol(rng, wlmax)
        vol = [rng.choice([a, b]) for _ in range(k)]
    elif vp in ("nonuni", "len"):
        n = k if vp == "nonuni" else rng.choice([x for x in range(1, 10) if x != k])
        vol = []
        while len(vol) < n:
            v = _vol(rng, wlmax)
            if v not in vol or len(vol) > 40:
                vol.append(v)
    elif vp == "edge":
        cap = min(wlmax, VOL_CAP)
        v = rng.choice([cap, float(cap), cap - 0.01, cap - 0.004, 0, 0.0, 0.004, 0.006])
        vol = v if rng.random() < 0.4 else [_vol(rng, wlmax) for _ in range(k)]
        if isinstance(vol, list):
            vol[rng.randrange(k)] = v
    else:
        cap = min(wlmax, VOL_CAP)
        choices = [-1, -0.01, -rng.randint(1, 500) / 4.0, {"__f__": "nan"}, {"__f__": "inf"}, cap + 0.01, cap + 0.001,
                   cap + 1, cap * 2, VOL_CAP + 1, VOL_CAP + 0.5, 1e9]
        if big:
            choices += [VOL_CAP + 0.01, VOL_CAP + 1, 10000000, 10000000.5] * 3
        v = rng.choice(choices)
        vol = v if rng.random() < 0.4 else [_vol(rng, wlmax) for _ in range(k)]
        if isinstance(vol, list):
            vol[rng.randrange(k)] = v

    # ---- position, arm
    r = rng.random()
    grid = rng.choice([1, 67]) if r < 0.15 else (rng.choice([0, 68, 0, 68, -1, 100]) if r < 0.19 else rng.randint(1, 67))
    r = rng.random()
    site = rng.choice([1, 128]) if r < 0.2 else (rng.choice([0, 129, 0, 129, -1, 200]) if r < 0.24 else rng.randint(1, 128))
    r = rng.random()
    arm = rng.choice([-1, 2]) if r < 0.04 else (rng.choice([0.0, 1.0, 0.5, 2.0]) if r < 0.05 else rng.choice([0, 1]))
    pos = {"__tuple__": [grid, site]} if rng.random() < 0.8 else [grid, site]
    case = {"ep": ep, "lw": lw, "wlmax": wlmax, "wells": wells, "tips": tips, "vol": vol, "pos": pos, "arm": arm,
            "lc": rng.choice(LCS)}
    if isinstance(vol, list) and len(vol) == k and vp in ("nonuni", "twoval", "uniform") and rng.random() < 0.12:
        # the same per-tip volumes in another container (tuple, array, a 2-D block laid out like the wells):
        # whether such a call is accepted is not decided by the statement; an accepted one must still agree
        forms = ["tuple", "array"]
        if wf == "2d":
            forms += ["2d", "2d", "nested", "nested"]
        case["vol_form"] = vf = rng.choice(forms)
        if vf == "tuple":
            case["vol"] = {"__tuple__": list(vol)}
        elif vf == "array":
            case["vol"] = enc(np.array(vol, dtype=float))
        else:
            nested = [[vol[j * r_ + i] for j in range(c_)] for i in range(r_)]
            case["vol"] = enc(np.array(nested, dtype=float)) if vf == "2d" else nested
    if rng.random() < 0.15:
        case["label"] = rng.choice(["step", "mix 3x", "line one\nline two"])
    return case


# ---------------------------------------------------------------------------------------------
# execution
# ---------------------------------------------------------------------------------------------
def _build(case):
    import robotools

    lw = case["lw"]
    if lw["kind"] == "trough":
        labware = robotools.Trough("T", int(lw["rows"]), int(lw["cols"]), min_volume=0, max_volume=lw["max"],
                                   initial_volumes=lw["initial"])
    else:
        labware = robotools.Labware("P", int(lw["rows"]), int(lw["cols"]), min_volume=0, max_volume=lw["max"],
                                    initial_volumes=lw["initial"])
    wl = robotools.EvoWorklist(max_volume=case.get("wlmax", 950))
    return labware, wl


def observe(case):
    """Run the call of an aspirate/dispense case; returns everything the oracle (or an exploration) needs."""
    labware, wl = _build(case)
    wells = dec(case["wells"])
    tips = dec(case["tips"])
    vol = dec(case["vol"])
    pos = dec(case["pos"])
    pre = np.array(labware.volumes, dtype=float, copy=True)
    n0 = len(wl)
    exc = None
    kw = {"arm": case["arm"]}
    if case.get("label") is not None:
        kw["label"] = case["label"]
    try:
        if case["ep"] == "evo_aspirate":
            wl.evo_aspirate(labware, wells, pos, tips, vol, case["lc"], **kw)
        else:
            wl.evo_dispense(labware, wells, pos, tips, vol, case["lc"], **kw)
    except Exception as e:  # observed
        exc = e
    post = np.array(labware.volumes, dtype=float, copy=True)
    appended = list(wl[n0:])
    return {"wells": wells, "tips": tips, "vol": vol, "pos": pos, "pre": pre, "post": post, "exc": exc,
            "appended": appended}


def structure(case, o):
    """Structural features of the inputs (independent of the outcome)."""
    lw = case["lw"]
    ids = flat_f(o["wells"])
    rcs = [_rc(w) for w in ids]
    k = len(ids)
    tips = list(o["tips"])
    nums = [_tipnum(t) for t in tips]
    vol = o["vol"]
    per_tip = isinstance(vol, (list, tuple, np.ndarray))
    if case.get("vol_form"):
        vols = list(flat_f(vol))  # column-major, like the wells
    else:
        vols = list(vol) if per_tip else [vol] * k
    s = {
        "ids": ids, "rcs": rcs, "k": k, "nums": nums, "per_tip": per_tip, "vols": vols,
        "cols_used": sorted({rc[1] for rc in rcs if rc is not None}),
        "repeated_wells": len(set(ids)) < k,
        "tips_any": "any" in nums,
        "tips_invalid": any(n is None for n in nums),
    }
    s["several_columns"] = len(s["cols_used"]) > 1
    rows_ = [rc[0] for rc in rcs if rc is not None]
    s["wells_ascending"] = (not s["several_columns"]) and all(a < b for a, b in zip(rows_, rows_[1:]))
    good = [n for n in nums if isinstance(n, int)]
    s["repeated_tips"] = len(set(good)) < len(good)
    s["tips_ascending"] = (not s["tips_any"]) and all(a < b for a, b in zip(good, good[1:]))
    s["len_mismatch"] = (len(tips) != k) or (per_tip and len(vols) != k)
    s["nonuniform"] = per_tip and len({float(v) for v in vols if _isnum(v)}) > 1
    s["bad_volume"] = sorted({c for c in (_bad_volume(v, case.get("wlmax", 950)) for v in vols) if c})
    grid, site = o["pos"]
    s["grid"], s["site"] = grid, site
    s["bad_grid"] = not (isinstance(grid, int) and 1 <= grid <= 67)
    s["bad_site"] = not (isinstance(site, int) and 1 <= site <= 128)
    s["bad_arm"] = not (isinstance(case["arm"], int) and case["arm"] in (0, 1))
    s["vis_rows"] = int(lw["rows"])
    s["cols"] = int(lw["cols"])
    s["trough"] = lw["kind"] == "trough"
    return s


def refusal_classes(s):
    c = []
    if s["several_columns"]:
        c.append("several_columns")
    if s["len_mismatch"]:
        c.append("length_mismatch")
    if s["repeated_tips"]:
        c.append("repeated_tips")
    if s["tips_any"]:
        c.append("tip_any")
    if s["bad_grid"]:
        c.append("grid_out_of_range")
    if s["bad_site"]:
        c.append("site_out_of_range")
    if s["bad_arm"]:
        c.append("arm_out_of_range")
    if s["bad_volume"]:
        c.append("volume_out_of_range")
    return c


def compare(case, s, o, rec):
    """Command effect vs tracking.  Returns (status, info): 'agree' | 'differ' | 'not_executable'."""
    sign = -1 if case["ep"] == "evo_aspirate" else 1
    try:
        eff = gwl.script_effect(rec)
    except gwl.ReplayError as e:
        return "not_executable", {"replay_error": str(e)}
    exp = {}
    cnt = {}
    for (r, c), v in eff.items():
        idx = (0, c) if s["trough"] else (r, c)
        exp[idx] = exp.get(idx, Fraction(0)) + sign * v
        cnt[idx] = cnt.get(idx, 0) + 1
    pre, post = o["pre"], o["post"]
    bad = []
    for r in range(pre.shape[0]):
        for c in range(pre.shape[1]):
            if not (math.isfinite(pre[r, c]) and math.isfinite(post[r, c])):
                bad.append([r, c, "non-finite", repr(float(post[r, c]))])
                continue
            delta = Fraction(float(post[r, c])) - Fraction(float(pre[r, c]))
            e = exp.get((r, c), Fraction(0))
            n = cnt.get((r, c), 0)
            tol = Fraction(5, 1000) * n + Fraction(1, 10**6) if n else Fraction(1, 10**9)
            if abs(delta - e) > tol:
                bad.append([r, c, float(e), float(delta)])
    for idx in exp:
        if not (0 <= idx[0] < pre.shape[0] and 0 <= idx[1] < pre.shape[1]):
            bad.append([idx[0], idx[1], float(exp[idx]), "no such well"])
    if bad:
        return "differ", {"wells [row, col, command, tracking]": bad[:12]}
    return "agree", {}


def _arm_key(arm):
    """Finding key for an accepted arm argument: only an integer-valued float equal to 0 or 1."""
    return "C13.arm_integral_float" if isinstance(arm, float) and arm in (0.0, 1.0) else None


def _popcount(x):
    return bin(x).count("1") if isinstance(x, int) and x >= 0 else -1


def mechanism_key(case, s, o, rec, status):
    """Finding key of a command/tracking disagreement - by the structure of the input and of the command.

    D12a ``C13.repeated_wells``: a well is named twice; the selection bitmap holds it once while every tip keeps
    its bit and slot, so tips and wells of the command do not pair up.
    D12b ``C13.wells_not_ascending``: distinct wells of one column, not in ascending row order, per-tip volumes not
    all equal, on a plate (on a trough all virtual rows are one well, the mechanism cannot show); the command is
    otherwise faithful (selection = the wells, mask = the tips) and gives the i-th given volume to the i-th lowest
    well, whereas the tracking charged exactly the i-th given well with it.
    Anything else: None.
    """
    if s["several_columns"] or s["len_mismatch"] or s["repeated_tips"] or s["tips_any"] or s["tips_invalid"]:
        return None
    if any(rc is None for rc in s["rcs"]):
        return None
    f = rec.f
    want_mask = 0
    for n in s["nums"]:
        want_mask |= 1 << (n - 1)
    faithful = (
        f["wells"] == set(s["rcs"])
        and f["mask"] == want_mask
        and [sl is not None for sl in f["slots"]] == [bool(want_mask >> i & 1) for i in range(8)] + [False] * 4
    )
    if not faithful:
        return None
    if s["repeated_wells"]:
        if status == "not_executable" and _popcount(f["mask"]) == s["k"] > len(f["wells"]):
            return "C13.repeated_wells"
        return None
    if not s["wells_ascending"] and s["nonuniform"] and status == "differ" and not s["trough"]:
        # the tracking is the request ...
        sign = -1 if case["ep"] == "evo_aspirate" else 1
        for rc, v in zip(s["rcs"], s["vols"]):
            delta = Fraction(float(o["post"][rc])) - Fraction(float(o["pre"][rc]))
            if abs(delta - sign * Fraction(float(v))) > Fraction(1, 10**6):
                return None
        # ... and the command holds the volumes in the given order
        srt = sorted(s["rcs"])
        tips_sorted = sorted(s["nums"])
        for rc, t, v in zip(srt, tips_sorted, s["vols"]):
            sl = f["slots"][t - 1]
            if sl is None or abs(sl - Fraction(float(v))) > Fraction(5, 1000) + Fraction(1, 10**6):
                return None
        return "C13.wells_not_ascending"
    return None


# ---------------------------------------------------------------------------------------------
# judgement
# ---------------------------------------------------------------------------------------------
def run_case(ctx, case):
    if case["ep"] == "evo_wash":
        return _run_wash(ctx, case)
    ep = case["ep"]
    o = observe(case)
    s = structure(case, o)
    exc = o["exc"]
    kind = "trough" if s["trough"] else "plate"
    ctx.case(case, s["k"] >= 2 and s["nonuniform"])
    ctx.count(f"call:{ep}:{kind}")
    wform = type(o["wells"]).__name__ + (f"{o['wells'].ndim}d" if isinstance(o["wells"], np.ndarray) else "")
    ctx.feature("wells_form", wform)
    ctx.feature("n_wells", s["k"])
    ctx.feature("worklist_max_volume", case.get("wlmax", 950))
    ctx.feature("volume_form", ("list" if s["per_tip"] else type(o["vol"]).__name__))
    ctx.feature("wells_order", "repeat" if s["repeated_wells"] else ("ascending" if s["wells_ascending"] else (
        "several_columns" if s["several_columns"] else "not_ascending")))
    ctx.feature("tips_order", "any" if s["tips_any"] else ("repeat" if s["repeated_tips"] else (
        "ascending" if s["tips_ascending"] else "not_ascending")))
    if len({type(t).__name__ for t in o["tips"]}) > 1:
        ctx.count("tips_mixing_int_and_member")
    brecs = [r for r in o["appended"] if isinstance(r, str) and r.startswith("B;")]

    def det(extra=None):
        d = {"entry_point": ep, "labware": case["lw"], "worklist_max_volume": case.get("wlmax", 950),
             "wells": s["ids"], "tips": enc(list(o["tips"])), "tip_numbers": s["nums"], "volumes": enc(o["vol"]),
             "labware_position": enc(o["pos"]), "arm": case["arm"], "liquid_class": case["lc"],
             "raised": repr(exc) if exc is not None else None, "appended": o["appended"]}
        if extra:
            d.update(extra)
        return d

    # ---- every refused call: no script record
    if exc is not None:
        ctx.count(f"refused:{ep}")
        ctx.check("nothing_appended_on_reject", not brecs, det)

    if case.get("vol_form"):
        ctx.count("volumes_in_other_container:" + case["vol_form"] + (":refused" if exc is not None else ":accepted"))
        if exc is not None:
            return
    # ---- calls that cannot be expressed must be refused
    classes = refusal_classes(s)
    if classes:
        for c in classes:
            ctx.count("refuse_class:" + c)
            ctx.check("rejects_" + c, exc is not None, det, key=_arm_key(case["arm"]) if c == "arm_out_of_range" else None)
        if isinstance(case["arm"], float):
            ctx.count("arm_float:" + ("integral" if case["arm"] == int(case["arm"]) else "fractional"))
        for c in s["bad_volume"]:
            ctx.count("bad_volume:" + c)
        if s["bad_grid"]:
            ctx.feature("refused_grid", s["grid"])
        if s["bad_site"]:
            ctx.feature("refused_site", s["site"])
        return
    if s["tips_invalid"] or any(rc is None for rc in s["rcs"]):
        ctx.count("outside_generated_domain")
        return
    canonical = s["wells_ascending"] and s["tips_ascending"]
    if exc is not None:
        ctx.count("refused_expressible:" + ("canonical" if canonical else (
            "repeated_wells" if s["repeated_wells"] else ("wells_not_ascending" if not s["wells_ascending"] else "tips_not_ascending"))))
        if canonical:
            ctx.feature("canonical_refusal", type(exc).__name__ + ": " + str(exc)[:80])
        return

    # ---- accepted call
    ctx.count(f"accepted:{ep}:{kind}")
    if canonical:
        ctx.count("accepted_canonical")
    name = "Aspirate" if ep == "evo_aspirate" else "Dispense"
    rec = None
    perr = None
    if len(brecs) == 1 and o["appended"] and o["appended"][-1] == brecs[0]:
        try:
            rec = gwl.parse(brecs[0])
        except gwl.GrammarError as e:
            perr = str(e)
    ok = rec is not None and rec.type == "script" and rec.f.get("name") == name
    if not ctx.check("emits_one_well_formed_command", ok, lambda: det({"grammar_error": perr})):
        return
    others = [r for r in o["appended"][:-1]]
    ctx.check("only_comments_besides_the_command", all(isinstance(r, str) and r.startswith("C;") for r in others), det)
    f = rec.f
    ctx.check("names_given_liquid_class", f["liquid_class"] == case["lc"], lambda: det({"decoded": f["liquid_class"]}))
    ctx.check("names_given_arm", f["arm"] == case["arm"], lambda: det({"decoded": f["arm"]}))
    ctx.check("names_given_grid", f["grid"] == s["grid"], lambda: det({"decoded": f["grid"]}))
    ctx.check("site_emitted_zero_based", f["site"] == s["site"] - 1, lambda: det({"decoded": f["site"]}))
    if s["grid"] in (1, 67):
        ctx.count(f"grid_end:{s['grid']}")
    if s["site"] in (1, 128):
        ctx.count(f"site_end:{s['site']}")
    ctx.count(f"arm:{case['arm']}")
    ctx.check("selection_has_labware_dimensions", (f["sel_rows"], f["sel_cols"]) == (s["vis_rows"], s["cols"]),
              lambda: det({"decoded": [f["sel_rows"], f["sel_cols"]]}))
    status, info = compare(case, s, o, rec)
    key = mechanism_key(case, s, o, rec, status) if status != "agree" else None
    d2 = lambda: det(dict(info, decoded={"mask": f["mask"], "slots": [None if x is None else float(x) for x in f["slots"]],
                                          "wells": sorted(f["wells"])},
                          structure={"wells_ascending": s["wells_ascending"], "repeated_wells": s["repeated_wells"],
                                     "tips_ascending": s["tips_ascending"], "nonuniform_volumes": s["nonuniform"]}))
    if ctx.check("command_is_executable", status != "not_executable", d2, key=key if status == "not_executable" else None):
        ctx.check("command_effect_equals_tracking", status == "agree", d2, key=key if status == "differ" else None)
    # observed classes
    cls = "canonical" if canonical else ("repeated_wells" if s["repeated_wells"] else (
        "wells_not_ascending" if not s["wells_ascending"] else "tips_not_ascending"))
    ctx.count(f"judged:{cls}:{'nonuniform' if s['nonuniform'] else 'uniform'}")
    if s["per_tip"]:
        ctx.count("per_tip_volumes")
    else:
        ctx.count("scalar_volume")
    if s["trough"] and s["k"] >= 2:
        ctx.count("trough_several_virtual_rows_of_one_well")
    if any(_isnum(v) and round(float(v) * 100) != float(v) * 100 for v in s["vols"]):
        ctx.count("volume_off_the_cent_grid")
    if case.get("label"):
        ctx.count("with_label")
    if any(_isnum(v) and float(v) == min(case.get("wlmax", 950), VOL_CAP) for v in s["vols"]):
        ctx.count("volume_at_upper_end:" + ("7158278" if case.get("wlmax", 950) > VOL_CAP else "max_volume"))


# ---------------------------------------------------------------------------------------------
# evo_wash
# ---------------------------------------------------------------------------------------------
def _wash_class(name, v):
    """'ok' | 'range' | 'type' for one evo_wash parameter value (documented range and documented type)."""
    lo, hi, kind = WASH[name]
    if isinstance(v, bool) and kind == "int":
        # True / False are the integers 1 / 0: inside the range the command must carry 1 / 0 (never the word)
        return "ok" if lo <= int(v) <= hi else "range"
    if v is None or isinstance(v, (str, bool)):
        return "type"
    if kind == "int":
        if isinstance(v, int):
            return "ok" if lo <= v <= hi else "range"
        if isinstance(v, float):
            return "type"  # a float where an int is documented (integer-valued or not)
        return "type"
    if isinstance(v, (int, float)):
        if isinstance(v, float) and math.isnan(v):
            return "range"
        return "ok" if lo <= v <= hi else "range"
    return "type"


def _one_decimal(s, v):
    try:
        d = Decimal(s)
    except InvalidOperation:
        return False
    if not d.is_finite() or d.as_tuple().exponent < -1:
        return False
    return abs(Fraction(d) - Fraction(v)) <= Fraction(5, 100) + Fraction(1, 10**9)


def _run_wash(ctx, case):
    import robotools

    p = dec(case["p"])
    tips = dec(case["tips"])
    nums = [_tipnum(t) for t in tips]
    ctx.case(case, False)
    ctx.count("call:evo_wash")
    wl = robotools.EvoWorklist()
    kw = {k: v for k, v in p.items() if k not in ("waste_grid", "waste_site", "cleaner_grid", "cleaner_site")}
    exc = None
    try:
        wl.evo_wash(tips=tips, waste_location=(p["waste_grid"], p["waste_site"]),
                    cleaner_location=(p["cleaner_grid"], p["cleaner_site"]), **kw)
    except Exception as e:  # observed
        exc = e
    records = list(wl)
    det = lambda extra=None: dict({"entry_point": "evo_wash", "tips": enc(list(tips)), "parameters": enc(p),
                                   "raised": repr(exc) if exc is not None else None, "records": records}, **(extra or {}))
    if any(n is None or n == "any" for n in nums):
        ctx.count("outside_generated_domain")
        return
    cls = {k: _wash_class(k, v) for k, v in p.items()}
    if exc is not None:
        ctx.check("nothing_appended_on_reject", len(records) == 0, det)
    bad = [k for k, c in cls.items() if c in ("range", "type")]
    if bad:
        for k in bad:
            lo, hi, _ = WASH[k]
            v = p[k]
            if cls[k] == "type":
                tag = "none" if v is None else type(v).__name__
                if isinstance(v, float) and math.isfinite(v) and v == int(v):
                    tag = "intfloat"
            else:
                tag = "below" if v < lo else ("above" if v > hi else "nan")
            ctx.count(f"wash_beyond:{k}:{tag}")
            only = lambda: det({"parameter": k, "class": cls[k]})
            if cls[k] == "range":
                ctx.check("wash_rejects_out_of_range_parameter", exc is not None, only)
            else:
                # mechanism: arm is the only int parameter compared with == only, so 0.0 / 1.0 pass and are
                # emitted as "0.0" / "1.0"
                ctx.check("wash_rejects_wrong_type_parameter", exc is not None, only, key=_arm_key(v) if k == "arm" else None)
        return
    if exc is not None:
        ctx.count("wash_refused_valid")
        ctx.feature("wash_valid_refusal", type(exc).__name__ + ": " + str(exc)[:80])
        return
    ctx.count("wash_accepted")
    rec = None
    perr = None
    if len(records) == 1:
        try:
            rec = gwl.parse(records[0])
        except gwl.GrammarError as e:
            perr = str(e)
    ok = rec is not None and rec.type == "script" and rec.f.get("name") == "Wash"
    if not ctx.check("wash_emits_one_well_formed_command", ok, lambda: det({"grammar_error": perr})):
        return
    f = rec.f
    mask = 0
    for n in nums:
        mask |= 1 << (n - 1)
    ctx.check("wash_mask_is_or_of_tips", f["mask"] == mask, lambda: det({"decoded": f["mask"], "expected": mask}))
    want = {
        "waste_grid": p["waste_grid"], "waste_site": p["waste_site"] - 1, "cleaner_grid": p["cleaner_grid"],
        "cleaner_site": p["cleaner_site"] - 1, "waste_delay": p["waste_delay"], "cleaner_delay": p["cleaner_delay"],
        "airgap": p["airgap"], "airgap_speed": p["airgap_speed"], "retract_speed": p["retract_speed"],
        "fastwash": p["fastwash"], "low_volume": p["low_volume"], "atfreq": 1000, "arm": p["arm"],
    }
    wrong = {k: [f[k], v] for k, v in want.items() if f[k] != v}
    ctx.check("wash_fields_in_documented_order", not wrong, lambda: det({"field: [decoded, expected]": wrong}))
    okv = _one_decimal(f["waste_vol"], p["waste_vol"]) and _one_decimal(f["cleaner_vol"], p["cleaner_vol"])
    ctx.check("wash_volumes_rounded_to_one_decimal", okv,
              lambda: det({"decoded": [f["waste_vol"], f["cleaner_vol"]], "given": [p["waste_vol"], p["cleaner_vol"]]}))
    if not wrong and okv:
        for k, v in p.items():
            lo, hi, _ = WASH[k]
            if v == lo:
                ctx.count(f"wash_at:{k}:lo")
            if v == hi:
                ctx.count(f"wash_at:{k}:hi")
    if len(set(nums)) < len(nums):
        ctx.count("wash_repeated_tips")


# ---------------------------------------------------------------------------------------------
# enumerated part
# ---------------------------------------------------------------------------------------------
def _go(ctx, case):
    ctx.current_case = case
    run_case(ctx, case)


def _wash_base():
    return {"waste_grid": 52, "waste_site": 2, "cleaner_grid": 53, "cleaner_site": 3, "arm": 0, "waste_vol": 3.14,
            "waste_delay": 480, "cleaner_vol": 4.26, "cleaner_delay": 520, "airgap": 11, "airgap_speed": 70,
            "retract_speed": 30, "fastwash": 1, "low_volume": 0}


def extra(ctx):
    if ctx.shard != 0:
        return
    n = 0
    for name in WASH:
        for mode in WASH_MODES:
            p = _wash_base()
            p["fastwash"], p["low_volume"] = (n // 2) % 2, n % 2
            p[name] = _wash_value(name, mode)
            _go(ctx, {"ep": "evo_wash", "tips": [1 + n % 8, {"__tip__": f"T{1 + (n + 3) % 8}"}], "p": p, "x": "grid"})
            n += 1
    # both range ends of every parameter at once
    for end in (0, 1):
        p = {k: WASH[k][end] for k in WASH}
        _go(ctx, {"ep": "evo_wash", "tips": [1, 2, 3, 4, 5, 6, 7, 8], "p": p, "x": "all_ends"})
    ctx.count("exhaustive_wash_grid", n)
    m = 0
    for ep in ("evo_aspirate", "evo_dispense"):
        for kind, rows, cols in (("plate", 8, 12), ("trough", 8, 2)):
            for grid in (0, 1, 67, 68):
                for site in (0, 1, 128, 129):
                    for arm in (-1, 0, 1, 2):
                        lw = {"kind": kind, "rows": rows, "cols": cols,
                              "initial": 1e5 if ep == "evo_aspirate" else 0, "max": 1e6}
                        _go(ctx, {"ep": ep, "lw": lw, "wlmax": 950, "wells": [well_id(r, 1) for r in (1, 3, 4)],
                                  "tips": [2, {"__tip__": "T5"}, 8], "vol": [10.5, 20.25 + m % 7, 3.125],
                                  "pos": {"__tuple__": [grid, site]}, "arm": arm, "lc": "Water", "x": "grid"})
                        m += 1
    ctx.count("exhaustive_position_grid", m)
    # both ends of the volume range, against the worklist limit and against the documented 7158278
    for ep in ("evo_aspirate", "evo_dispense"):
        for kind, rows, cols in (("plate", 4, 3), ("trough", 4, 2)):
            for wlmax, initial in ((950, 1e5), (200, 1e5), (1000, 1e5), (10000000, 1e8)):
                cap = min(wlmax, VOL_CAP)
                for v in (0, 0.004, cap - 0.01, cap, float(cap), cap + 0.001, cap + 0.01, cap + 1, -0.01,
                          {"__f__": "nan"}, {"__f__": "inf"}):
                    lw = {"kind": kind, "rows": rows, "cols": cols,
                          "initial": initial if ep == "evo_aspirate" else 0, "max": 1e10}
                    for vol in (v, [12.5, v]):
                        _go(ctx, {"ep": ep, "lw": lw, "wlmax": wlmax, "wells": ["B02", "D02"],
                                  "tips": [{"__tip__": "T3"}, 4], "vol": vol, "pos": {"__tuple__": [30, 2]}, "arm": 1,
                                  "lc": "Water", "x": "volume_ends"})
    ctx.count("exhaustive_complete")
    ctx.current_case = None


# ---------------------------------------------------------------------------------------------
# gates
# ---------------------------------------------------------------------------------------------
def gates(stats, tier):
    c = stats["counters"]
    r = []
    for ep in ("evo_aspirate", "evo_dispense"):
        for kind in ("plate", "trough"):
            if not c.get(f"accepted:{ep}:{kind}"):
                r.append(f"no accepted {ep} on a {kind}")
    for cls in ("several_columns", "length_mismatch", "repeated_tips", "tip_any", "grid_out_of_range",
                "site_out_of_range", "arm_out_of_range", "volume_out_of_range"):
        if not c.get("refuse_class:" + cls) or not c.get("rule:rejects_" + cls):
            r.append(f"refusal class never observed: {cls}")
    for cls in ("negative", "nan", "above_7158278", "above_max_volume"):
        if not c.get("bad_volume:" + cls):
            r.append(f"out-of-range volume class never observed: {cls}")
    for k in ("grid_end:1", "grid_end:67", "site_end:1", "site_end:128", "arm:0", "arm:1", "per_tip_volumes",
              "scalar_volume", "trough_several_virtual_rows_of_one_well", "volume_off_the_cent_grid",
              "tips_mixing_int_and_member", "volume_at_upper_end:max_volume", "volume_at_upper_end:7158278",
              "judged:canonical:nonuniform", "judged:canonical:uniform", "judged:tips_not_ascending:nonuniform",
              "judged:wells_not_ascending:uniform", "wash_accepted", "wash_repeated_tips"):
        if not c.get(k):
            r.append(f"never observed: {k}")
    for name in WASH:
        for end in ("lo", "hi"):
            if not c.get(f"wash_at:{name}:{end}"):
                r.append(f"evo_wash never accepted and compared at the {end} end of {name}")
        for tag in ("below", "above", "none"):
            if not c.get(f"wash_beyond:{name}:{tag}"):
                r.append(f"evo_wash never observed with {name} {tag}")
        if not (c.get(f"wash_beyond:{name}:float") or c.get(f"wash_beyond:{name}:str")):
            r.append(f"evo_wash never observed with a wrong type for {name}")
        if WASH[name][2] == "int" and not c.get(f"wash_beyond:{name}:intfloat"):
            r.append(f"evo_wash never observed with an integer-valued float for {name}")
    for rule in ("nothing_appended_on_reject", "emits_one_well_formed_command", "names_given_liquid_class",
                 "names_given_arm", "names_given_grid", "site_emitted_zero_based", "selection_has_labware_dimensions",
                 "command_is_executable", "command_effect_equals_tracking", "wash_emits_one_well_formed_command",
                 "wash_mask_is_or_of_tips", "wash_fields_in_documented_order", "wash_volumes_rounded_to_one_decimal",
                 "wash_rejects_out_of_range_parameter", "wash_rejects_wrong_type_parameter", "hook.ledger_exact",
                 "hook.unaddressed_unchanged"):
        if not c.get("rule:" + rule):
            r.append(f"deciding rule never evaluated: {rule}")
    if c.get("exhaustive_wash_grid", 0) != len(WASH) * len(WASH_MODES) or c.get("exhaustive_position_grid", 0) != 256:
        r.append("enumerated range-end grids incomplete")
    if c.get("refused_expressible:canonical"):
        r.append(f"{c['refused_expressible:canonical']} canonical calls (ascending wells and tips, everything in "
                 f"range) were refused: {sorted(stats['features'].get('canonical_refusal', ()))[:3]}")
    if c.get("wash_refused_valid"):
        r.append(f"{c['wash_refused_valid']} evo_wash calls with every parameter in range were refused: "
                 f"{sorted(stats['features'].get('wash_valid_refusal', ()))[:3]}")
    forms = set(stats["features"].get("wells_form", ()))
    for fm in ("list", "tuple", "str", "ndarray1d", "ndarray2d"):
        if fm not in forms:
            r.append(f"wells form never observed: {fm}")
    if stats["distinct_nontrivial"] < (50 if tier == "quick" else 1000):
        r.append("too few distinct non-trivial cases")
    return r
