"""C06 - large-volume splitting is complete, bounded and minimal.

Three oracles (DESIGN.md, section C06):

(a) helper level: every call of ``robotools.worklists.utils.partition_volume`` - the direct calls
    of the dense grid *and* the real calls made inside both copies of ``transfer`` (observed by a
    spy) - is judged against exact rational arithmetic: ``[]`` for v == 0, otherwise exactly
    ``max(1, ceil(v / max_volume))`` steps, every step ``0 < step <= max_volume`` (exact float
    comparison - this is what ``aspirate_well`` compares), steps summing to v (1e-9 relative).
(b) end to end: single-pair ``transfer`` on EvoWorklist and FluentWorklist; the A and the D records
    appended are counted and summed (parsed with the independent grammar of ``rvmon.gwl``).
(c) ``reagent_distribution`` / ``distribute``: the multi-dispense field of the R record is
    ``min(requested, floor(max_volume / volume))`` and ``multi_disp * volume <= max_volume``.

Known defect D1 (``C06.partition_noninteger_max``): the violation is keyed by *mechanism* - the
max_volume is not integer-valued AND a step returned by ``partition_volume`` is > max_volume or
<= 0 (helper level), or the transfer was refused / mis-emitted while the real ``partition_volume``
call made inside that very transfer returned such a step.  A violation that carries the key is
recorded under the rule name ``<rule>[noninteger_max]`` so that it can be told from an unkeyed
deviation of the same rule on stdout; evaluations are always counted under the plain rule name.
Everything observed with an integer-valued max_volume has key None.
"""
from __future__ import annotations

import math
import zlib
from decimal import Decimal, InvalidOperation
from fractions import Fraction

from .. import attach
from ..attach import fr, near
import numpy as np

from ..core import dec, enc
from ..gwl import GrammarError, parse
from ..world import narrow_scalar

ID = "C06"
TITLE = "Large-volume handling: splitting is complete, bounded and minimal"
LEVEL = "exploration"
TECHNIQUE = (
    "runtime monitoring: exact-rational oracle on every partition_volume call (direct grid + spy on the calls "
    "made by both transfer copies), record counting of single-pair transfers, R-record multi-dispense formula"
)
ATTACH = ()
RULE = (
    "cases = (1) batches of direct partition_volume(v, max_volume=m) calls (about 40 volumes of one m: zero, below "
    "m, float products k*m, k*m +- 1e-6 / 1e-9 / 0.01, nextafter neighbours, random, integers, 2-decimal values, very "
    "large up to 2000 steps), (2) single-pair transfers on EvoWorklist / FluentWorklist with auto_split on and off, "
    "(3) reagent_distribution and distribute calls with a requested multi_disp; m from integers (1, 2, 7, 50, 100, "
    "250, 950, 1000, random; as int and as float) and non-integers (0.5, 2.5, 99.99, 333.3, 950.5, random); plus an "
    "enumerated grid m x k=1..12 x neighbours of k*m for helper and both devices. A case is non-trivial when a volume "
    "exceeds max_volume (a split / a refusal / a multi_disp reduction is required) or lies within 1e-6 relative of a "
    "multiple of max_volume; distinct = distinct hashes of the case inputs"
)
ASSUMPTIONS = [
    "exact rational arithmetic on the float arguments (fractions.Fraction) is the reference for ceil(v / max_volume) "
    "and floor(max_volume / volume)",
    "within 1e-9 relative of a multiple k * max_volume that is not hit exactly the step count k or k+1 is accepted "
    "and a final ghost step of magnitude <= 1e-9 * max_volume is tolerated at helper level (DESIGN.md 1.5 rule 5); "
    "where v equals k * max_volume in exact arithmetic the count must be exactly k",
    "record volumes are rounded to two decimals by the code under test: record-level bounds allow 0.005 per record",
    "the wash/commit records between the pairs and the well numbering are not judged here (C07, C08)",
    "auto_split=False with v <= max_volume, reagent_distribution refusing a fitting volume, volume 0 and "
    "BaseWorklist.transfer are not decided by the statement: counted, not judged",
]

KEY_D1 = "C06.partition_noninteger_max"
SPY = "robotools.worklists.utils.partition_volume"
KEYED_CAP = 4  # stored violations per keyed rule and shard; repeats of the same mechanism are counted

INT_M = (1, 2, 7, 50, 100, 250, 950, 1000)
NONINT_M = (0.5, 2.5, 99.99, 333.3, 950.5)
GRID_M = INT_M + (3, 10, 300, 950.0, 1000.0, 2.0) + NONINT_M + (0.1, 1.5, 7.5, 12.25, 1000.5, 949.99)
MAX_STEPS = 2000
BATCH = 40
REL = Fraction(1, 10**9)


# ---------------------------------------------------------------------------------------------
# exact reference
# ---------------------------------------------------------------------------------------------
def _py(m):
    """The plain Python number behind a numpy scalar (the oracle's arithmetic must not inherit a narrow dtype)."""
    return m.item() if isinstance(m, np.generic) else m


def _nonint(m) -> bool:
    return float(m) != int(m)


def _exact(v, m):
    """(exact step count, set of accepted counts, near-multiple band?, nearest multiple k)."""
    fv, fm = fr(v), fr(m)
    q = fv / fm
    n = max(1, math.ceil(q))
    k = int(round(q))
    # either-band of DESIGN.md 1.5 rule 5 - but not when v is *exactly* k * max_volume: IEEE division returns
    # exactly k there, so the count is decided without any tolerance
    band = k >= 1 and fv != k * fm and abs(fv - k * fm) <= REL * fm
    return n, ({k, k + 1} if band else {n}), band, k


def _is_float_product(v, m):
    k = int(round(float(v) / float(m))) if m else 0
    return k >= 1 and (float(v) == float(k * m) or fr(v) == k * fr(m))


def _near_multiple(v, m, rel=1e-6):
    fv, fm = fr(v), fr(m)
    k = int(round(fv / fm))
    return k >= 1 and abs(fv - k * fm) <= Fraction(rel) * fm


# ---------------------------------------------------------------------------------------------
# verdict helper: evaluations under the plain rule name, keyed violations under rule[noninteger_max]
# ---------------------------------------------------------------------------------------------
_keyed_seen: dict = {}


def _chk(ctx, rule, ok, det=None, key=None):
    ctx.check(rule, True)
    if ok:
        return True
    name = rule if key is None else f"{rule}[noninteger_max]"
    if key is not None and not ctx.replaying:
        n = _keyed_seen[name] = _keyed_seen.get(name, 0) + 1
        if n > KEYED_CAP:
            # same known mechanism again: counted, not stored (the store is bounded per shard and
            # must stay available for deviations without a key)
            ctx.count("keyed_repeats:" + name)
            return False
    ctx.violation(name, det() if callable(det) else det, key=key)
    return False


def _floats(out):
    if out is None:
        return None
    try:
        return [float(s) for s in out]
    except Exception:
        return repr(out)


def _ensure_spy():
    att = attach.current()
    if SPY not in att.spies:
        attach.spy(SPY)
    att.keep_spy_log = True
    return att


# ---------------------------------------------------------------------------------------------
# oracle (a): one partition_volume call
# ---------------------------------------------------------------------------------------------
def _judge_partition(ctx, v, m, out, exc, origin):
    """Judge one call. Returns True when the result shows the D1 mechanism."""
    m = _py(m)
    nonint = _nonint(m)
    ctx.count("partition_calls:" + origin)
    ctx.count("max_volume:noninteger" if nonint else "max_volume:integer")
    det = lambda **kw: dict(
        {"call": "partition_volume", "origin": origin, "volume": v, "max_volume": m,
         "returned": _floats(out), "raised": repr(exc) if exc else None,
         "max_volume_is_integer": not nonint}, **kw)
    if not _chk(ctx, "partition_does_not_raise", exc is None, det):
        return False
    if v == 0:
        ctx.count("v:zero")
        _chk(ctx, "zero_volume_gives_no_steps", isinstance(out, list) and len(out) == 0, det)
        return False
    try:
        steps = [float(s) for s in out]
        total = math.fsum(steps)  # exactly rounded sum; nan/inf members make it non-finite (or raise)
        ok = math.isfinite(total) and len(steps) >= 1
    except Exception:
        steps, total, ok = [], math.nan, False
    if not _chk(ctx, "steps_are_finite_numbers", ok, det):
        return False
    n, allowed, band, k = _exact(v, m)
    if band:
        ctx.count("v:near_multiple_band")
    if _is_float_product(v, m):
        ctx.count("v:exact_multiple")
        ctx.count("v:exact_multiple_noninteger_max" if nonint else "v:exact_multiple_integer_max")
    if v > m:
        ctx.count("v:split_required")
    elif v < m:
        ctx.count("v:below_max")
    if n > 100:
        ctx.count("v:more_than_100_steps")
    judged = steps
    ghost = False
    if band and len(steps) >= 2 and abs(steps[-1]) <= 1e-9 * float(m):
        # "each with 0 < step": an empty last step is a violation like any other non-positive step (it used to be
        # tolerated while the repository produced it, see DESIGN 5.2 D29)
        ctx.count("empty_last_step_in_the_near_multiple_band")
    has_over = max(steps) > m
    has_nonpos = min(judged) <= 0
    d1 = nonint and (has_over or has_nonpos)
    key = KEY_D1 if d1 else None
    _chk(ctx, "step_le_max_volume", not has_over,
         lambda: det(expected_steps=n, offending=[s for s in steps if s > m][:20], key=key), key=key)
    _chk(ctx, "step_positive", not has_nonpos,
         lambda: det(expected_steps=n, offending=[s for s in judged if s <= 0][:20], key=key), key=key)
    # count and sum are never wrong *because of* the rounding mechanism of D1 -> no key
    cnt_ok = len(steps) in allowed or (ghost and len(judged) in allowed)
    _chk(ctx, "step_count_is_exact_ceil", cnt_ok,
         lambda: det(expected_steps=sorted(allowed), observed_steps=len(steps), near_multiple=band))
    _chk(ctx, "steps_sum_to_volume", near(total, fr(v), scale=abs(float(v))), lambda: det(sum=total))
    return d1


# ---------------------------------------------------------------------------------------------
# generation
# ---------------------------------------------------------------------------------------------
def _gen_m(rng):
    c = rng.random()
    if c < 0.40:
        m = rng.choice(INT_M)
        return m if rng.random() < 0.7 else float(m)
    if c < 0.50:
        return rng.randint(1, 1200)
    if c < 0.75:
        return rng.choice(NONINT_M)
    if c < 0.85:
        return round(rng.uniform(0.3, 1200), rng.choice([1, 2, 3]))
    return rng.uniform(0.3, 1200)


V_CLASSES = ("zero", "below", "multiple", "multiple", "multiple_pm", "multiple_pm", "nextafter", "random",
             "random", "int", "int", "cent", "cent", "large")


def _gen_v(rng, m, max_steps, cls=None):
    cls = cls or rng.choice(V_CLASSES)
    fm = float(m)
    kmax = 12 if rng.random() < 0.9 else max(12, max_steps - 1)
    k = rng.randint(1, kmax)
    if cls == "zero":
        v = rng.choice([0, 0.0])
    elif cls == "below":
        v = rng.choice([rng.uniform(0, fm), fm * 0.5, max(fm - 1e-6, 1e-7), math.nextafter(fm, 0.0), 1e-9, 0.004, fm / 3])
    elif cls == "multiple":
        v = float(k * m)
    elif cls == "multiple_pm":
        v = float(k * m) + rng.choice([1e-6, -1e-6, 1e-6, -1e-6, 1e-9, -1e-9, 0.01, -0.01, 4e-10 * fm, -4e-10 * fm])
    elif cls == "nextafter":
        v = math.nextafter(float(k * m), rng.choice([math.inf, -math.inf]))
    elif cls == "random":
        v = rng.uniform(0, 13 * fm)
    elif cls == "int":
        i = rng.randint(0, max(1, int(13 * fm)))
        v = i if rng.random() < 0.3 else float(i)
    elif cls == "cent":
        v = round(rng.uniform(0, 13 * fm), 2)
    else:
        v = rng.uniform(13 * fm, max(14, max_steps - 1) * fm)
    if v < 0:
        v = 0.0
    if v > (max_steps - 1) * fm:
        v = (max_steps - 1) * fm
    return v


def n_cases(tier):
    return 11600 if tier == "quick" else 485000


def gen_case(rng, tier, index):
    case = _gen_case(rng, tier, index)
    m = case.get("m")
    if isinstance(m, int) and not isinstance(m, bool) and not case.get("huge") and rng.random() < 0.07:
        # the limit as a narrow numpy integer (read from an int8 ... uint16 configuration array): products of step
        # counts and the limit do not fit such a type
        fits = [t for t, hi in (("int8", 127), ("uint8", 255), ("int16", 32767), ("uint16", 65535)) if m <= hi]
        if fits:
            case["m"] = {"__npint__": [rng.choice(fits[:2]), m]}
            case["narrow_limit"] = True
    if (isinstance(m, float) and m != int(m) and not case.get("huge") and float(np.float32(m)) == m and rng.random() < 0.25
            and case.get("kind") in ("helper", "transfer") and ("vs" in case or "v" in case)):
        # A non-integer limit held in single precision (numpy.float32 out of a configuration table; the value itself is
        # exactly representable: 950.5, 2.5, 0.5, 12.25 ...).  Comparisons with such a limit are single-precision
        # comparisons (the caller chose that precision, DESIGN 5.3 #16), so the volumes of these cases are kept where
        # single precision is exact: multiples of 0.25 that are an exact multiple of the limit or clearly off one.
        def _q(v):
            try:
                q = round(float(v) * 4) / 4.0
            except (OverflowError, ValueError):
                return None
            if not math.isfinite(q) or q < 0 or q > 2**20:
                return None
            ratio = q / m
            if ratio != round(ratio) and abs(ratio - round(ratio)) < 1e-3:
                return None
            return q

        if "vs" in case:
            vs = [x for x in (_q(v) for v in case["vs"]) if x is not None]
            if vs:
                case["vs"] = vs
                case["m"] = {"__npscalar__": ["float32", m]}
                case["single_precision_limit"] = True
        else:
            q = _q(case["v"])
            if q is not None and not isinstance(case["v"], dict):
                case["v"] = q
                case["m"] = {"__npscalar__": ["float32", m]}
                case["single_precision_limit"] = True
    if case.get("kind") == "transfer" and case.get("auto_split") and not case.get("huge") and rng.random() < 0.06:
        # the worklist has split a transfer before, under another step limit; the limit was re-assigned since
        fm = float(m)
        m0 = rng.choice([x for x in (200, 950, 50, 1000, 300.5) if x != fm])
        case["earlier"] = [m0, rng.choice([2.5 * m0, 3 * m0 + 1, 0.5 * m0, 7.25 * m0])]
    return case


def _gen_case(rng, tier, index):
    r = rng.random()
    m = _gen_m(rng)
    if rng.random() < 0.03:
        fm = float(m)
        k = rng.randint(1, 6)
        vols = [round(rng.uniform(0.01, max(0.02, fm)), 2) for _ in range(k)]
        if rng.random() < 0.8:
            vols[rng.randrange(k)] = rng.choice([fm + 0.004, fm + 0.001, fm + 0.01, fm + 1.0, 2 * fm, math.nextafter(fm, math.inf) if fm > 1 else fm + 0.004])
        return {"kind": "evo_step", "ep": rng.choice(["evo_aspirate", "evo_dispense"]), "m": m, "k": k, "vols": vols,
                "auto_split": rng.random() < 0.5, "scalar": rng.random() < 0.5}
    if r < 0.43:
        return {"kind": "helper", "m": m, "vs": [_gen_v(rng, m, MAX_STEPS) for _ in range(BATCH)]}
    if r < 0.86:
        auto = rng.random() < 0.8
        max_steps = 400 if rng.random() < 0.03 else 40
        if auto:
            v = _gen_v(rng, m, max_steps)
        else:
            fm = float(m)
            v = rng.choice([fm + 0.01, math.nextafter(fm, math.inf), 2 * fm, rng.uniform(fm, 5 * fm) + 0.01,
                            round(rng.uniform(fm, 3 * fm), 2) + 0.01, fm, fm * 0.5, rng.uniform(0, fm), fm + 1e-6,
                            rng.choice([7158279.0, 8e6, 5e7])])  # far above the step limit AND above what one record can carry
        if auto and rng.random() < 0.15:
            # several wells of ONE column in one call, needing different numbers of partitions
            n = rng.randint(2, 6)
            fm = float(m)
            vs = []
            for _ in range(n):
                k = rng.choice([0, 0, 1, 1, 2, 3, 5])
                vs.append(rng.choice([fm * k + rng.uniform(0.01, fm), float(int(fm * k) + rng.randint(1, max(1, int(fm)))),
                                      fm * max(k, 1), round(fm * k + rng.uniform(0.01, fm), 2), 0.0 if rng.random() < 0.3 else fm * 0.9]))
            return {"kind": "transfer_multi", "device": rng.choice(["evo", "fluent"]), "m": m, "vs": vs,
                    "wash": rng.choice([1, 2, "flush", "reuse"]), "pb": rng.choice(["auto", "source", "destination"]),
                    "same_column_dst": rng.random() < 0.7}
        case = {"kind": "transfer", "device": rng.choice(["evo", "fluent"]), "m": m, "v": v, "auto_split": auto,
                "wash": rng.choice([1, 1, 2, 3, 4, "flush", "reuse"]), "src": rng.choice(["plate", "plate", "trough"])}
        if rng.random() < 0.25:
            # pass-through keyword arguments do not change what is pipetted
            case["kw"] = rng.choice([{"liquid_class": "Water free"}, {"tip": 3}, {"tip": {"__tip__": "T2"}, "liquid_class": "DMSO"},
                                     {"rack_id": "B7"}, {"liquid_class": "Water free", "rack_type": "96 Well"}])
        if auto and rng.random() < 0.004:
            # a bulk transfer of several litres: far more than one record can carry (7 158 278 uL), split like any other
            case["m"] = rng.choice([50000, 100000, 950, 5000.5])
            case["v"] = rng.choice([7158278.5, 7158279, 8000000.0, 1.5e7, 7158278 + float(case["m"])])
            case["huge"] = True
            if rng.random() < 0.6:
                case["kw"] = rng.choice([{"liquid_class": "Water free"}, {"tip": 3}, {"rack_id": "B7"}])
        return case
    fm = float(m)
    req = rng.choice([1, 2, 3, 4, 6, 8, 12, rng.randint(1, 30)])
    vol = rng.choice([fm / rng.randint(1, 12), round(rng.uniform(0.01, fm), 2), rng.uniform(0.001, fm),
                      float(rng.randint(1, max(1, int(fm)))), fm, round(fm / rng.randint(2, 9), 2),
                      fm / rng.randint(1, 12) + rng.choice([1e-6, -1e-6, 0.01]), fm + rng.choice([0.01, 1.0, 1e-6]),
                      fm * rng.uniform(1.0, 3.0)])
    if vol <= 0:
        vol = fm / 2
    vol = narrow_scalar(rng, vol, 0.35)  # the same number as a narrow numpy integer (int8 ... uint16) now and then
    if r < 0.94:
        case = {"kind": "rd", "cls": rng.choice(["base", "evo", "fluent"]), "m": m, "volume": vol, "multi_disp": req}
        if rng.random() < 0.3:
            # not the first reagent distribution on this worklist object
            case["before"] = [[rng.choice([fm / 2, fm / 3, fm, fm / 7, 1.0]), rng.choice([1, 2, 6, 12])] for _ in range(rng.randint(1, 3))]
        return case
    return {"kind": "distribute", "device": rng.choice(["evo", "fluent"]), "m": m, "volume": vol, "multi_disp": req,
            "n_dst": rng.randint(1, 24)}


# ---------------------------------------------------------------------------------------------
# execution
# ---------------------------------------------------------------------------------------------
def run_case(ctx, case):
    kind = case["kind"]
    ctx.feature("kind", kind)
    if case.get("single_precision_limit"):
        ctx.count("limit_is_a_single_precision_float:" + kind)
    if kind == "helper":
        _run_helper(ctx, case)
    elif kind == "transfer":
        _run_transfer(ctx, case)
    elif kind == "transfer_multi":
        _run_transfer_multi(ctx, case)
    elif kind == "rd":
        _run_rd(ctx, case)
    elif kind == "distribute":
        _run_distribute(ctx, case)
    elif kind == "evo_step":
        _run_evo_step(ctx, case)
    else:
        raise ValueError(kind)


def _run_evo_step(ctx, case):
    """EVO script commands are single steps that are never split: one above max_volume is refused
    (InvalidOperationError), whatever auto_split says."""
    import robotools

    m_lib = dec(case["m"])
    m = _py(m_lib)
    k = int(case["k"])
    vols = [float(x) for x in case["vols"]]
    wl = robotools.EvoWorklist(max_volume=m_lib, auto_split=bool(case["auto_split"]))
    p = robotools.Labware("P", 8, 2, min_volume=0, max_volume=1e9, initial_volumes=1e8 if case["ep"] == "evo_aspirate" else 0)
    wells = [f"{'ABCDEFGH'[i]}01" for i in range(k)]
    v_arg = vols[0] if k == 1 and case.get("scalar") else list(vols)
    exc = None
    try:
        getattr(wl, case["ep"])(p, wells, (10, 1), list(range(1, k + 1)), v_arg, "lc")
    except Exception as e:
        exc = e
    over = [v for v in vols if fr(v) > fr(m) * (1 + REL)]
    ctx.count("evo_steps:" + case["ep"])
    ctx.case(case, bool(over))
    det = lambda: {"call": case["ep"], "max_volume": m, "auto_split": case["auto_split"], "volumes": vols,
                   "raised": repr(exc), "records": list(wl)}
    if over:
        ctx.count("evo_step_above_max_volume")
        ok = isinstance(exc, robotools.InvalidOperationError)
        _chk(ctx, "auto_split_off_refuses_oversized", ok, det)
        _chk(ctx, "oversized_evo_step_emits_no_command", not any(isinstance(r, str) and r.startswith("B;") and len(r) > 2 for r in wl), det)


def _make_wl(cls, case, m, auto):
    """A fifth of the worklists get their limit by assignment to the public attribute (deterministic per case)."""
    if zlib.crc32(repr(sorted((k, repr(v)) for k, v in case.items() if k != "index")).encode()) % 5 == 0:
        wl = cls(max_volume=(950 if float(m) != 950 else 200), auto_split=True)
        wl.max_volume = m
        wl.auto_split = auto
        return wl
    return cls(max_volume=m, auto_split=auto)


def _run_helper(ctx, case):
    import robotools.worklists.utils as U

    att = _ensure_spy()
    m_lib = dec(case["m"])
    m = _py(m_lib)
    vs = [dec(v) for v in case["vs"]]
    nontrivial = False
    for v in vs:
        try:
            out, exc = U.partition_volume(v, max_volume=m_lib), None
        except Exception as e:
            out, exc = None, e
        _judge_partition(ctx, v, m, out, exc, "direct")
        if isinstance(out, list) and out and (zlib.crc32(repr((v, m)).encode()) % 7 == 0):
            # the returned list is the caller's: a caller that consumes it (pop) and asks again for the same
            # pair must get the full list of steps again
            out.clear()
            try:
                again, exc2 = U.partition_volume(v, max_volume=m_lib), None
            except Exception as e:
                again, exc2 = None, e
            ctx.count("helper_asked_again_after_consuming_the_result")
            _judge_partition(ctx, v, m, again, exc2, "direct")
        if v > m or (v > 0 and _near_multiple(v, m)):
            nontrivial = True
    att.spy_log[SPY].clear()
    ctx.count("helper_evaluations", len(vs))
    ctx.case(case, nontrivial)


def _record_volumes(ctx, records):
    """Volumes of the A and of the D records (exact Fractions of the 2-decimal fields)."""
    vols = {"A": [], "D": []}
    for r in records:
        if not isinstance(r, str) or r[:2] not in ("A;", "D;"):
            continue
        try:
            vols[r[0]].append(parse(r).f["volume"])
        except GrammarError:
            ctx.count("record_outside_grammar")  # C09's business; the volume field is still read
            try:
                vols[r[0]].append(Fraction(Decimal(r.split(";")[6])))
            except (InvalidOperation, IndexError, ValueError):
                vols[r[0]].append(None)
    return vols


def _run_transfer(ctx, case):
    import robotools

    att = _ensure_spy()
    dev = case["device"]
    m_lib = dec(case["m"])
    m = _py(m_lib)
    v = dec(case["v"])
    auto = bool(case["auto_split"])
    nonint = _nonint(m)
    cls = robotools.EvoWorklist if dev == "evo" else robotools.FluentWorklist
    if case.get("src") == "trough":
        src = robotools.Trough("SRC", 8, 1, min_volume=0, max_volume=1e9, initial_volumes=1e8)
    else:
        src = robotools.Labware("SRC", 2, 2, min_volume=0, max_volume=1e9, initial_volumes=1e8)
    dst = robotools.Labware("DST", 2, 2, min_volume=0, max_volume=1e9)
    n0 = 0
    if case.get("earlier"):
        m0, v0 = case["earlier"]
        wl = cls(max_volume=m0, auto_split=True)
        wl.transfer(src, "A01", dst, "A01", v0)
        wl.max_volume = m_lib
        n0 = len(wl)
        ctx.count("limit_reassigned_after_an_earlier_split_transfer")
    else:
        wl = _make_wl(cls, case, m_lib, auto)
    if case.get("narrow_limit"):
        ctx.count("limit_is_a_narrow_numpy_integer:transfer")
    log = att.spy_log.setdefault(SPY, [])
    log.clear()
    exc = None
    try:
        wl.transfer(src, "A01", dst, "B02", v, wash_scheme=dec(case.get("wash", 1)), **(dec(case.get("kw")) or {}))
    except Exception as e:
        exc = e
    if case.get("kw"):
        ctx.count("transfer_with_pass_through_kwargs")
    if case.get("huge"):
        ctx.count("transfer_above_the_per_record_volume_limit")
    calls = list(log)
    log.clear()
    records = list(wl)[n0:]
    ctx.count(f"transfers:{dev}")
    ctx.count("transfers:noninteger_max" if nonint else "transfers:integer_max")
    # the real partition_volume calls of this transfer, judged by oracle (a)
    d1 = False
    for a, kw, res, cexc in calls:
        try:
            cv, cm = a[0], kw["max_volume"]
        except Exception:
            ctx.count("spy_call_with_unexpected_signature")
            continue
        d1 = _judge_partition(ctx, cv, cm, res, cexc, dev) or d1
    ctx.count(f"spy_calls_in_{dev}_transfer", len(calls))
    key = KEY_D1 if (nonint and d1) else None
    vols = _record_volumes(ctx, records)
    det = lambda **kw: dict(
        {"call": f"{cls.__name__}.transfer", "volume": v, "max_volume": m, "auto_split": auto,
         "max_volume_is_integer": not nonint, "raised": repr(exc) if exc else None,
         "A": [None if x is None else float(x) for x in vols["A"]],
         "D": [None if x is None else float(x) for x in vols["D"]],
         "partition_volume_returned": [_floats(c[2]) for c in calls],
         "key": key}, **kw)
    fm = fr(m)
    # rounding to two decimals: half a cent per record, plus the sub-ulp slack of DESIGN.md 1.5 (numpy.round is not
    # correctly rounded: 198.255 -> "198.26")
    half = Fraction(1, 200) + REL * max(1, fm)

    if not auto:
        ctx.case(case, v > m)
        if v > m:
            ctx.count("auto_split_off_oversized")
            ok = isinstance(exc, robotools.InvalidOperationError)
            _chk(ctx, "auto_split_off_refuses_oversized", ok, det)
            if ok:
                ctx.count("auto_split_off_refusal")
            big = [x for side in ("A", "D") for x in vols[side] if x is not None and x > fm + half]
            _chk(ctx, "auto_split_off_emits_no_oversized_record", not big, det)
        else:
            ctx.count("auto_split_off_fitting_volume" + ("" if exc is None else ":raised"))
        return

    ctx.case(case, v > m or (v > 0 and _near_multiple(v, m)))
    if v == 0:
        ctx.count("transfers:zero_volume")
        _chk(ctx, "zero_volume_emits_nothing", exc is None and not vols["A"] and not vols["D"], det)
        return
    if v > m:
        ctx.count("transfers:split_required")
    # a refusal carries the key only if it is the "too large" refusal caused by the offending step
    rkey = key if isinstance(exc, robotools.InvalidOperationError) else None
    if not _chk(ctx, "split_transfer_not_refused", exc is None, det, key=rkey):
        if nonint and d1:
            ctx.count("d1_refusals")
        return
    n, allowed, band, k = _exact(v, m)
    if band:
        ctx.count("transfers:near_multiple_band")
    if _is_float_product(v, m):
        ctx.count("transfers:exact_multiple")
    for side in ("A", "D"):
        xs = vols[side]
        _chk(ctx, "record_count_is_exact_ceil", len(xs) in allowed,
             lambda: det(side=side, expected_records=sorted(allowed), observed_records=len(xs)), key=key)
        good = [x for x in xs if x is not None]
        _chk(ctx, "record_volume_le_max_volume", len(good) == len(xs) and all(x <= fm + half for x in good),
             lambda: det(side=side), key=key)
        tol = half * max(1, len(good)) + REL * fr(v)
        _chk(ctx, "record_volumes_sum_to_volume", abs(sum(good, Fraction(0)) - fr(v)) <= tol,
             lambda: det(side=side, sum=float(sum(good, Fraction(0)))), key=key)


def _run_transfer_multi(ctx, case):
    """One transfer of several wells of a column whose volumes need different numbers of partitions: every
    well must still get exactly ceil(v/max) pairs that add up to v."""
    import robotools

    dev = case["device"]
    m_lib = dec(case["m"])
    m = _py(m_lib)
    vs = [float(dec(v)) for v in case["vs"]]
    n = len(vs)
    nonint = _nonint(m)
    cls = robotools.EvoWorklist if dev == "evo" else robotools.FluentWorklist
    wl = _make_wl(cls, case, m_lib, True)
    src = robotools.Labware("SRC", 8, 2, min_volume=0, max_volume=1e9, initial_volumes=1e8)
    dst = robotools.Labware("DST", 8, 3, min_volume=0, max_volume=1e9)
    rows = "ABCDEFGH"
    sw = [f"{rows[i]}01" for i in range(n)]
    dw = [f"{rows[i]}02" for i in range(n)] if case.get("same_column_dst") else [f"{rows[(i * 3) % 8]}0{1 + i % 3}" for i in range(n)]
    exc = None
    try:
        wl.transfer(src, sw, dst, dw, vs, wash_scheme=dec(case.get("wash", 1)), partition_by=case.get("pb", "auto"))
    except Exception as e:
        exc = e
    ctx.count("transfers_multi:" + dev)
    ctx.case(case, len({_exact(v, m)[0] for v in vs if v > 0}) >= 2)
    fm = fr(m)
    half = Fraction(1, 200) + REL * max(1, fm)
    per = {i: [] for i in range(n)}
    for r in list(wl):
        if r[:2] == "A;":
            try:
                f = parse(r).f
            except GrammarError:
                continue
            per.setdefault(f["position"] - 1, []).append(f["volume"])  # column 1 of an 8-row plate: position = row + 1
    det = lambda **kw: dict({"call": f"{cls.__name__}.transfer", "volumes": vs, "max_volume": m, "raised": repr(exc) if exc else None,
                             "aspirated_per_source_well": {sw[i]: [float(x) for x in per.get(i, [])] for i in range(n)},
                             "partition_by": case.get("pb")}, **kw)
    key = KEY_D1 if nonint and exc is not None and isinstance(exc, robotools.InvalidOperationError) else None
    if not _chk(ctx, "split_transfer_not_refused", exc is None, det, key=key):
        return
    for i, v in enumerate(vs):
        xs = per.get(i, [])
        if v == 0:
            _chk(ctx, "zero_volume_emits_nothing", not xs, lambda: det(well=sw[i]))
            continue
        nn, allowed, band, k = _exact(v, m)
        _chk(ctx, "record_count_is_exact_ceil", len(xs) in allowed, lambda: det(well=sw[i], expected_records=sorted(allowed), observed_records=len(xs)))
        _chk(ctx, "record_volume_le_max_volume", all(x <= fm + half for x in xs), lambda: det(well=sw[i]))
        tol = half * max(1, len(xs)) + REL * fr(v)
        _chk(ctx, "record_volumes_sum_to_volume", abs(sum(xs, Fraction(0)) - fr(v)) <= tol, lambda: det(well=sw[i], sum=float(sum(xs, Fraction(0)))))


def _expected_multi(m, vol, req):
    """(expected multi_disp, set of accepted values) from exact arithmetic with the either-band."""
    q = fr(m) / fr(vol)
    fl = math.floor(q)
    exp = min(req, fl)
    acc = {exp}
    kq = int(round(q))
    if abs(q - kq) <= REL * max(1, q):  # ratio within 1e-9 of an integer: float division may see either side
        acc |= {min(req, kq), min(req, kq - 1)}
    p = fr(req) * fr(vol)
    if abs(p - fr(m)) <= REL * fr(m):  # requested * volume within 1e-9 of max_volume: the guard may see either side
        acc.add(req)
    return exp, acc


def _judge_r(ctx, case, records, m, vol, req, what):
    rs = [r for r in records if isinstance(r, str) and r.startswith("R;")]
    det = lambda **kw: dict({"call": what, "max_volume": m, "volume": vol, "requested_multi_disp": req,
                             "records": records}, **kw)
    if not _chk(ctx, "one_R_record_emitted", len(rs) == 1, det):
        return
    try:
        md = parse(rs[0]).f["multi_disp"]
    except GrammarError:
        ctx.count("record_outside_grammar")
        try:
            md = int(rs[0].split(";")[14])
        except (ValueError, IndexError):
            _chk(ctx, "multi_disp_is_min_of_requested_and_floor", False, lambda: det(observed="unreadable"))
            return
    exp, acc = _expected_multi(m, vol, req)
    if exp < req:
        ctx.count("r_reduction_required")
        if md < req:
            ctx.count("r_reduction_observed")
    else:
        ctx.count("r_no_reduction_required")
    ctx.count("r:noninteger_max" if _nonint(m) else "r:integer_max")
    _chk(ctx, "multi_disp_is_min_of_requested_and_floor", md in acc,
         lambda: det(expected=exp, accepted=sorted(acc), observed=md))
    _chk(ctx, "multi_disp_times_volume_fits_max_volume", md * fr(vol) <= fr(m) * (1 + REL),
         lambda: det(observed=md, product=float(md * fr(vol))))


def _run_rd(ctx, case):
    import robotools

    m_lib, vol_arg, req = dec(case["m"]), dec(case["volume"]), int(case["multi_disp"])
    m = _py(m_lib)
    vol = float(vol_arg)
    if type(vol_arg).__module__ == "numpy":
        ctx.count("volume_as_" + type(vol_arg).__name__)
    cls = {"base": robotools.BaseWorklist, "evo": robotools.EvoWorklist, "fluent": robotools.FluentWorklist}[case["cls"]]
    wl = cls(max_volume=m_lib)
    for bv, bm in case.get("before", ()):
        try:
            wl.reagent_distribution("SRC", 1, 8, "OTHER", 1, 96, volume=bv, multi_disp=bm)
        except Exception:
            pass
    n0 = len(wl)
    if case.get("before"):
        ctx.count("rd_on_a_worklist_with_earlier_distributions")
    exc = None
    try:
        wl.reagent_distribution("SRC", 1, 8, "DST", 1, 96, volume=vol_arg, multi_disp=req)
    except Exception as e:
        exc = e
    records = list(wl)[n0:]
    ctx.count("rd_calls")
    ctx.case(case, fr(req) * fr(vol) > fr(m))
    if vol > m:
        # nothing fits: a refusal is fine; an emitted record must still not plan more than fits
        ctx.count("rd_volume_above_max" + (":raised" if exc is not None else ":accepted"))
        for r in records:
            if r.startswith("R;"):
                try:
                    md = int(r.split(";")[14])
                except (ValueError, IndexError):
                    continue
                _chk(ctx, "multi_disp_times_volume_fits_max_volume", md * fr(vol) <= fr(m) * (1 + REL),
                     lambda: {"call": "reagent_distribution", "max_volume": m, "volume": vol, "record": r})
        return
    if exc is not None:
        ctx.count("rd_raised_for_fitting_volume")  # not decided by the statement
        return
    _judge_r(ctx, case, records, m, vol, req, f"{cls.__name__}.reagent_distribution")


def _run_distribute(ctx, case):
    import robotools

    m_lib, vol_arg, req = dec(case["m"]), dec(case["volume"]), int(case["multi_disp"])
    m = _py(m_lib)
    vol = float(vol_arg)
    dev = case["device"]
    cls = robotools.EvoWorklist if dev == "evo" else robotools.FluentWorklist
    wl = cls(max_volume=m_lib)
    src = robotools.Trough("SRC", 8, 2, min_volume=0, max_volume=1e9, initial_volumes=1e8)
    dst = robotools.Labware("DST", 8, 12, min_volume=0, max_volume=1e9)
    n_dst = int(case["n_dst"])
    wells = [f"{'ABCDEFGH'[i % 8]}{i // 8 + 1:02d}" for i in range(n_dst)]
    exc = None
    try:
        wl.distribute(src, 0, dst, wells, volume=vol_arg, multi_disp=req)
    except Exception as e:
        exc = e
    records = list(wl)
    ctx.count(f"distribute_calls:{dev}")
    ctx.case(case, fr(req) * fr(vol) > fr(m))
    det = lambda: {"call": f"{cls.__name__}.distribute", "max_volume": m, "volume": vol, "requested_multi_disp": req,
                   "raised": repr(exc) if exc else None, "records": records}
    if vol > m:
        ctx.count("distribute_volume_above_max")
        # (the statement names no exception class for this refusal)
        _chk(ctx, "distribute_refuses_volume_above_max", exc is not None, det)
        _chk(ctx, "refused_distribute_emits_no_R_record", not any(r.startswith("R;") for r in records), det)
        return
    if exc is not None:
        ctx.count("distribute_raised_for_fitting_volume")  # not decided by the statement
        return
    _judge_r(ctx, case, records, m, vol, req, f"{cls.__name__}.distribute")


# ---------------------------------------------------------------------------------------------
# enumerated grid
# ---------------------------------------------------------------------------------------------
def _grid_cases():
    """Deterministic enumeration: m of GRID_M x k = 1..12 x neighbours of k*m."""
    out = []
    for m in GRID_M:
        fm = float(m)
        vs = [0, 0.0, fm / 2, fm / 3, math.nextafter(fm, 0.0), 1e-9, 0.004]
        for k in range(1, 13):
            b = float(k * m)
            vs += [b, b + 1e-6, b - 1e-6, math.nextafter(b, math.inf), math.nextafter(b, -math.inf), b + 0.01,
                   b - 0.01, b + 4e-10 * fm, b - 4e-10 * fm, b + fm / 2, b + 0.5, b + 1.0]
        for i in range(0, len(vs), 60):
            out.append({"kind": "helper", "m": m, "vs": [x for x in vs[i:i + 60] if x >= 0]})
        if fm <= 50:
            # dense sweep on the 0.25 grid up to 13 * m (small max_volume: many steps, small remainders)
            sweep = [i / 4 for i in range(0, int(13 * fm * 4) + 1)]
            for i in range(0, len(sweep), 100):
                out.append({"kind": "helper", "m": m, "vs": sweep[i:i + 100]})
        for dev in ("evo", "fluent"):
            for k in range(1, 13):
                b = float(k * m)
                for v in (b, b + 1e-6, b - 1e-6, math.nextafter(b, math.inf), math.nextafter(b, -math.inf), b + fm / 2):
                    out.append({"kind": "transfer", "device": dev, "m": m, "v": v, "auto_split": True, "wash": 1,
                                "src": "plate"})
            for v in (0, 0.0, fm / 2, 0.5, 1.5):
                out.append({"kind": "transfer", "device": dev, "m": m, "v": v, "auto_split": True, "wash": "reuse",
                            "src": "trough"})
            for v in (fm + 0.01, math.nextafter(fm, math.inf), 2 * fm, 12.5 * fm, fm):
                out.append({"kind": "transfer", "device": dev, "m": m, "v": v, "auto_split": False, "wash": 1,
                            "src": "plate"})
            for vol in (fm, fm / 2, fm / 3, fm / 2 + 0.01, 0.3 * fm, fm / 7, fm + 0.01):
                for req in (1, 2, 3, 8):
                    out.append({"kind": "distribute", "device": dev, "m": m, "volume": vol, "multi_disp": req,
                                "n_dst": 8})
        for vol in (fm, fm / 2, fm / 3, fm / 2 + 0.01, 0.3 * fm, fm / 7, fm / 12, round(fm / 7, 2) or 0.01):
            for req in (1, 2, 3, 5, 8, 12):
                out.append({"kind": "rd", "cls": "base", "m": m, "volume": vol, "multi_disp": req})
    return out


def extra(ctx):
    cases = _grid_cases()
    att = _ensure_spy()
    done = 0
    for i, case in enumerate(cases):
        if i % ctx.nshards != ctx.shard:
            continue
        ctx.current_case = case
        run_case(ctx, case)
        att.spy_log[SPY].clear()
        done += 1
    ctx.count("grid_cases", done)
    ctx.current_case = None


# ---------------------------------------------------------------------------------------------
# gates
# ---------------------------------------------------------------------------------------------
def gates(stats, tier):
    c = stats["counters"]
    r = []
    want = len(_grid_cases())
    if c.get("grid_cases", 0) != want:
        r.append(f"enumerated grid incomplete: {c.get('grid_cases', 0)} of {want} cases")
    for rule in ("zero_volume_gives_no_steps", "step_le_max_volume", "step_positive", "step_count_is_exact_ceil",
                 "steps_sum_to_volume", "zero_volume_emits_nothing", "split_transfer_not_refused",
                 "record_count_is_exact_ceil", "record_volume_le_max_volume", "record_volumes_sum_to_volume",
                 "auto_split_off_refuses_oversized", "auto_split_off_emits_no_oversized_record",
                 "multi_disp_is_min_of_requested_and_floor", "multi_disp_times_volume_fits_max_volume",
                 "distribute_refuses_volume_above_max"):
        if not c.get("rule:" + rule):
            r.append(f"deciding rule never evaluated: {rule}")
    for k in ("max_volume:integer", "max_volume:noninteger", "transfers:integer_max", "transfers:noninteger_max",
              "v:exact_multiple_integer_max", "v:exact_multiple_noninteger_max", "v:near_multiple_band",
              "v:split_required", "v:more_than_100_steps", "transfers:exact_multiple", "transfers:split_required",
              "transfers:evo", "transfers:fluent", "auto_split_off_refusal", "r_reduction_observed",
              "r_no_reduction_required", "r:integer_max", "r:noninteger_max", "distribute_volume_above_max",
              "partition_calls:direct"):
        if not c.get(k):
            r.append(f"never observed: {k}")
    for dev in ("evo", "fluent"):
        if not c.get(f"spy_calls_in_{dev}_transfer") or not c.get(f"partition_calls:{dev}"):
            r.append(f"the spy on partition_volume saw no call from the {dev} copy of transfer")
    need_h = 150000 if tier == "quick" else 3000000
    if c.get("helper_evaluations", 0) < need_h:
        r.append(f"only {c.get('helper_evaluations', 0)} helper evaluations (< {need_h})")
    if stats["distinct_nontrivial"] < (50 if tier == "quick" else 1000):
        r.append("too few distinct non-trivial cases")
    return r
