"""C19 - get_trough_wells cycles through the given wells and returns exactly n."""
from __future__ import annotations

import numpy as np

from ..attach import flat_f
from ..core import dec, enc
from ..world import well_id

ID = "C19"
TITLE = "get_trough_wells cycles through the given wells and returns exactly n"
LEVEL = "exploration"
TECHNIQUE = "runtime monitoring: closed-formula oracle on every call, exhaustive (n, length, container) grid"
ATTACH = ()
RULE = (
    "cases = calls get_trough_wells(n, wells): exhaustive grid n 0..300 x len(wells) 1..26 x container "
    "(list, 1-D array, 2-D array in every factorisation, Trough.wells / column slices), sampled large n, "
    "and must-reject calls (negative n, non-int n, empty wells); a case is non-trivial when n > len(wells) "
    "(the cycle wraps) or when it must be rejected; distinct = distinct (n, wells, container) hashes"
)
ASSUMPTIONS = [
    "the oracle's own column-major flattening (rvmon.attach.flat_f) is the reference reading of array arguments",
    "numpy integer scalars and bool are not generated for n (the statement only speaks about int and non-int)",
]
EXHAUSTIVE = "n in 0..300 x len 1..26 x {list, 1-D array, all 2-D factorisations}"

GRID_N = 300
GRID_L = 26


def _ids(L):
    # ids of a trough with L virtual rows (single column) or, beyond 26, not needed
    return [well_id(r, 0) for r in range(L)]


def n_cases(tier):
    return 3000 if tier == "quick" else 200000


def gen_case(rng, tier, index):
    kind = rng.choice(["large", "large", "reject_n", "reject_empty", "trough", "dups", "mixed_width"])
    if kind == "mixed_width":
        # wells of a labware with >= 100 columns: IDs of three and four characters in one collection (shorter first)
        R = rng.randint(1, 4)
        c0 = rng.randint(95, 99)
        cols = list(range(c0, c0 + rng.randint(2, 8)))
        ids = [f"{'ABCD'[r]}{c:02d}" for c in cols for r in range(R)]
        L = len(ids)
        form = rng.choice(["list", "array", "tuple", f"2d:{R}x{len(cols)}"])
        return {"n": rng.choice([L, L + 1, 2 * L, rng.randint(1, 3 * L), rng.randint(L, 200)]), "wells": ids, "form": form}
    if kind == "dups" and rng.random() < 0.5:
        # n as a numpy integer (a count that comes out of numpy arithmetic: `R, C = numpy.array(plate.shape)`)
        L = rng.choice([1, 1, 2, rng.randint(1, 26)])
        ids = _ids(L)
        dt, top = rng.choice([("int64", 100), ("int32", 100), ("uint8", 255), ("int8", 127), ("int16", 32767), ("uint16", 65535), ("intp", 100)])
        nv = rng.choice([top, top, top - 1, rng.randint(0, min(top, 300))])  # also the largest count the type can hold
        return {"n": {"__npint__": [dt, nv]}, "wells": ids, "form": rng.choice(["list", "array"])}
    if kind == "large":
        L = rng.randint(1, 26)
        n = rng.choice([rng.randint(301, 5000), rng.randint(5000, 100000), L * rng.randint(12, 400), L * rng.randint(12, 400) + 1])
        ids = _ids(L)
        rng.shuffle(ids)
        return {"n": n, "wells": ids, "form": rng.choice(["list", "array", "tuple"])}
    if kind == "dups":
        L = rng.randint(1, 26)
        ids = [rng.choice(_ids(8)) for _ in range(L)]
        return {"n": rng.randint(0, 120), "wells": ids, "form": rng.choice(["list", "array"])}
    if kind == "trough":
        vr, cols = rng.randint(1, 16), rng.randint(1, 4)
        return {"n": rng.randint(0, 200), "trough": [vr, cols], "slice": rng.choice(["all", "col", "rows"]),
                "col": rng.randrange(cols), "form": "trough"}
    if kind == "reject_empty":
        return {"n": rng.randint(0, 20), "wells": [], "form": rng.choice(["list", "array", "2d0", "2dR0", "slice_beyond_last_column", "tuple"]),
                "reject": "empty", "rows": rng.randint(1, 8), "cols": rng.randint(1, 3)}
    bad = rng.choice([-1, -rng.randint(2, 1000), 2.5, 3.0, 8.0, float(rng.randint(0, 40)), "3", None, float("nan"), float("inf"), -0.5, [3], {"__npf__": 8.0}, {"__npf__": float(rng.randint(1, 30))},
                      {"__npf__": 3.75}, {"__npf__": 2.5}, {"__npf__": -0.4}, {"__npf32__": 2.5}, {"__npf__": 1e-9}])
    return {"n": bad, "wells": _ids(rng.randint(1, 8)), "form": "list", "reject": "n"}


def _materialise(case):
    form = case["form"]
    if form == "trough":
        import robotools

        vr, cols = case["trough"]
        t = robotools.Trough("t", vr, cols, min_volume=0, max_volume=100)
        if case["slice"] == "all":
            return t.wells
        if case["slice"] == "col":
            return t.wells[:, case["col"]]
        return t.wells[: max(1, vr // 2), :]
    w = dec(case["wells"])
    if form == "array":
        return np.array(w)
    if form == "tuple":
        return tuple(w)
    if form == "2d0":
        return np.zeros((0, 3), dtype=str)
    if form == "2dR0":
        return np.zeros((case.get("rows", 3), 0), dtype="U3")  # rows but no columns: still no well at all
    if form == "slice_beyond_last_column":
        import robotools

        t = robotools.Trough("t", case.get("rows", 4), case.get("cols", 1), min_volume=0, max_volume=100)
        return t.wells[:, case.get("cols", 1):]
    if form.startswith("2d:"):
        r, c = map(int, form[3:].split("x"))
        return np.array(w).reshape((r, c), order="F")
    if form.startswith("2dobj:"):
        # the same 2-D layout held in an object-dtype array (pandas .values, arrays filled in a loop)
        r, c = map(int, form[6:].split("x"))
        return np.array(w).reshape((r, c), order="F").astype(object)
    return list(w)


def run_case(ctx, case):
    import robotools

    n = dec(case["n"])
    if isinstance(n, dict) and "__npf__" in n:
        n = np.float64(n["__npf__"])
    elif isinstance(n, dict) and "__npf32__" in n:
        n = np.float32(n["__npf32__"])
    wells = _materialise(case)
    reject = case.get("reject")
    ctx.feature("form", case["form"])
    if reject == "n":
        # the same question with the nearest legal n was asked just before (answers must not depend on what was asked earlier)
        try:
            f_ = float(n)
            if f_ == f_ and abs(f_) < 1e6:
                robotools.get_trough_wells(int(abs(round(f_))), _materialise(case))
                ctx.count("legal_call_before_the_invalid_one")
        except Exception:
            pass
    try:
        out = robotools.get_trough_wells(n, wells)
        exc = None
    except Exception as e:
        out, exc = None, e
    det = lambda: {"n": case["n"], "wells": enc(wells), "returned": enc(out), "raised": repr(exc)}
    if reject:
        ctx.count("must_reject:" + reject)
        ctx.check("rejects_invalid_" + reject, exc is not None, det)
        ctx.case(case, True)
        return
    ref = flat_f(wells)
    L = len(ref)
    ctx.case(case, isinstance(n, int) and n > L)
    if not ctx.check("no_exception_on_valid_input", exc is None, det):
        return
    ctx.check("returns_list", isinstance(out, list), det)
    if not ctx.check("length_is_n", len(out) == n, det):
        return
    ok = all(isinstance(out[i], str) and str(out[i]) == str(ref[i % L]) for i in range(n))  # elements are well IDs (strings)
    ctx.check("cycles_in_column_major_order", ok, det)
    if n == 0:
        ctx.count("n_zero")
        ctx.check("n_zero_gives_empty", out == [], det)
    if isinstance(out, list) and (n + L) % 5 == 0:
        # the returned list is the caller's (e.g. `src = get_trough_wells(11, a); src += get_trough_wells(5, b)`):
        # asking again for the same (n, wells) must give the full answer again
        out.extend(["X99"] * 3)
        if out:
            out.pop(0)
        try:
            again = robotools.get_trough_wells(n, _materialise(case))
        except Exception as e:
            again = e
        ctx.count("asked_again_after_editing_the_result")
        ctx.check("cycles_in_column_major_order", isinstance(again, list) and len(again) == n and all(isinstance(again[i], str) and str(again[i]) == str(ref[i % L]) for i in range(n)),
                  lambda: {"n": case["n"], "wells": enc(wells), "second_answer": enc(again) if not isinstance(again, Exception) else repr(again)})
    if n > L:
        ctx.count("wrapped")
    if n % L == 0 and n > 0:
        ctx.count("exact_multiple")


def extra(ctx):
    """Exhaustive grid, sharded by length."""
    done = 0
    for L in range(1 + ctx.shard, GRID_L + 1, ctx.nshards):
        ids = _ids(L)
        forms = ["list", "array"] + [f"2d:{r}x{L // r}" for r in range(1, L + 1) if L % r == 0]
        forms += [f"2dobj:{r}x{L // r}" for r in range(2, L) if L % r == 0][:2]
        for form in forms:
            for n in range(0, GRID_N + 1):
                case = {"n": n, "wells": ids, "form": form}
                ctx.current_case = case
                run_case(ctx, case)
                done += 1
    ctx.count("exhaustive_grid_calls", done)
    if ctx.shard == 0:
        ctx.count("exhaustive_complete")
    ctx.current_case = None


def gates(stats, tier):
    c = stats["counters"]
    r = []
    forms_per_len = sum(2 + sum(1 for d in range(1, L + 1) if L % d == 0) + len([r for r in range(2, L) if L % r == 0][:2])
                        for L in range(1, GRID_L + 1))
    want = forms_per_len * (GRID_N + 1)
    if c.get("exhaustive_grid_calls", 0) != want:
        r.append(f"exhaustive grid incomplete: {c.get('exhaustive_grid_calls', 0)} of {want} calls")
    for k in ("must_reject:n", "must_reject:empty", "wrapped", "n_zero", "exact_multiple"):
        if not c.get(k):
            r.append(f"never observed: {k}")
    if not any(str(f).startswith("2d:") for f in stats["features"].get("form", ())):
        r.append("no 2-D input observed")
    if "trough" not in stats["features"].get("form", ()):
        r.append("no Trough.wells input observed")
    if stats["distinct_nontrivial"] < (50 if tier == "quick" else 1000):
        r.append("too few distinct non-trivial cases")
    return r
