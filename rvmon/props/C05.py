"""C05 - composition tracking equals ideal volumetric mixing and conserves components."""
from __future__ import annotations

import copy
import math
from fractions import Fraction

import numpy as np

from .. import attach, gen, hist, model
from ..attach import fr, near, real_index
from ..core import dec, enc
from ..world import build_labware, gen_labware, well_id

ID = "C05"
TITLE = "Composition tracking equals ideal volumetric mixing and conserves components"
LEVEL = "exploration"
TECHNIQUE = (
    "runtime monitoring: exact rational mixing model driven by the stream of elementary add/remove events observed "
    "at the Labware hooks; conservation ledger per component; naming oracle on construction"
)
ATTACH = ("labware", "worklist")
RULE = (
    "cases = online-generated histories (transfers incl. same-labware / same-well / chained, distributes, dispenses "
    "and direct adds with known compositions, aspirates, zero-volume steps with a composition, wells emptied and "
    "refilled) over plates and troughs with explicit, partial, shared and default component names, plus enumerated "
    "naming cases over geometry classes; a history is non-trivial when at least one well ends up holding two or more "
    "components; distinct = distinct (worktable, seed) hashes"
)
ASSUMPTIONS = [
    "wells that received liquid of unknown composition (add/dispense without compositions, or liquid taken from such a "
    "well) and wells addressed by a rejected call are excluded from the numeric comparison from then on",
    "default component names of a single-row multi-column plate are not constrained (the statement only names "
    "multi-row plates, multi-column troughs and single-well labware)",
    "fractions are compared with 1e-9 absolute tolerance",
    "a trough built through the legacy signature Labware(..., rows=1, virtual_rows=n) is a multi-column trough like "
    "any other: its default names must be distinct per column",
]
HOOK_RULES = ("remove_keeps_composition", "composition_shape", "monitor_error")

D7 = "C05.zero_volume_nan"


def observed_names(ctx, desc, lw, case=None):
    """Component name of every initially filled real well as reported by the labware; judges the
    initial-composition and naming rules.  Returns {'r,c': name} (None where undeterminable)."""
    rows = 1 if desc["kind"] == "trough" else desc["rows"]
    cols = desc["columns"]
    comp = lw.composition
    given = {k: v for k, v in (desc.get("names") or {}).items() if v is not None}
    if any(v is None for v in (desc.get("names") or {}).values()):
        ctx.count("naming:explicit_none_values")
    names = {}
    ok_one = True
    for r in range(rows):
        for c in range(cols):
            ones = [k for k, a in comp.items() if a.shape == (rows, cols) and a[r, c] == 1.0]
            nonzero = [k for k, a in comp.items() if a.shape == (rows, cols) and a[r, c] != 0]
            if desc["initial"][r][c] > 0:
                if len(ones) == 1 and len(nonzero) == 1:
                    names[f"{r},{c}"] = ones[0]
                else:
                    ok_one = False
            elif nonzero:
                ok_one = False
    det = lambda: {"labware": {k: v for k, v in desc.items()}, "composition": {k: a.tolist() for k, a in comp.items()}}
    ctx.check("initially_one_100_percent_component_per_filled_well", ok_one, det)
    if not ok_one:
        return None
    # explicit names verbatim
    ok_v = all(names.get(k) == v for k, v in given.items() if v is not None)
    ctx.check("explicit_names_used_verbatim", ok_v, det)
    defaults = {k: v for k, v in names.items() if given.get(k) is None}
    if defaults:
        n_real = rows * cols
        if n_real == 1:
            ctx.count("naming:single_well_default")
            ctx.check("single_well_labware_named_after_labware", all(v == desc["name"] for v in defaults.values()), det)
        elif (desc["kind"] == "plate" and rows > 1) or (desc["kind"] == "trough" and cols > 1):
            # (also a trough built as Labware(..., virtual_rows=n): it is a multi-column trough all the same)
            ctx.count("naming:multi_well_default")
            vals = list(defaults.values())
            ctx.check("default_names_distinct_per_well", len(set(vals)) == len(vals), det)
        else:
            ctx.count("naming:unconstrained_default")
    if given:
        ctx.count("naming:explicit" if len(given) >= len(names) else "naming:partial")
    return names


class CompositionMonitor(hist.Monitor):
    def __init__(self, ctx):
        self.ctx = ctx
        self.multi = False

    def start(self, eng):
        wt = []
        self.ok = True
        for name, d in eng.descs.items():
            nm = observed_names(self.ctx, d, eng.world.lw[name])
            if nm is None:
                self.ok = False
                nm = {}
            d2 = dict(d)
            d2["names"] = nm
            wt.append(d2)
        self.sh = model.Shadow(wt)
        self.poisoned = set()

    def before(self, eng, op):
        self.pre_vol = {n: eng.cur(n) for n in eng.descs}
        self.pre_tot = self.totals(eng)
        self.src_known = True

    def totals(self, eng):
        tot = {}
        for n, lw in eng.world.lw.items():
            v = np.asarray(lw.volumes)
            for k, a in lw.composition.items():
                if a.shape == v.shape:
                    tot[k] = tot.get(k, 0.0) + float(np.nansum(v * a))
        return tot

    def after(self, eng, op, out):
        if not self.ok:
            return
        ctx = self.ctx
        kind = op["op"]
        carry = []
        sh = self.sh
        events = out.events
        if out.exc is None and kind in ("add", "dispense", "evo_dispense", "remove", "aspirate", "evo_aspirate"):
            # a direct call: the oracle pairs wells, volumes and compositions as the CALLER wrote them
            # (not as they happen to arrive at Labware.add)
            from ..attach import flat_f

            L = sh.lw[op["lw"]]
            desc = eng.descs[op["lw"]]
            ws = flat_f(dec(op["wells"]))
            vs = flat_f(dec(op["vol"]))
            vs = vs * len(ws) if len(vs) == 1 else vs
            comps = dec(op.get("comps")) if kind in ("add", "dispense", "evo_dispense") else None
            for i, (w, v) in enumerate(zip(ws, vs)):
                idx = real_index(desc, w)
                if idx is None:
                    continue
                if kind in ("remove", "aspirate", "evo_aspirate"):
                    L.remove(idx, v)
                elif comps is None or comps[i] is None:
                    L.add(idx, v, None)
                else:
                    L.add(idx, v, {k: fr(f) * fr(v) for k, f in comps[i].items()})
            ctx.count("direct_call_judged_by_its_arguments")
            events = []
        for ev in events:
            if ev["kind"] not in ("add", "remove"):
                continue
            L = sh.lw[ev["name"]]
            desc = eng.descs[ev["name"]]
            if ev["exc"] is not None:
                # rejected elementary call: either nothing was applied, or the prefix before the offending
                # element; in both cases the composition has to match the volumes that are really there
                if np.array_equal(ev["post"], ev["pre"], equal_nan=True):
                    ctx.count("event_rejected:nothing_applied")
                    continue
                kk = ev.get("k")
                applied = False
                if ev.get("status") == "limit" and kk is not None and ev["kind"] == "add":
                    comps = ev.get("compositions")
                    trial = []
                    for i, (w, v) in enumerate(zip(ev["wells"][:kk], ev["volumes"][:kk])):
                        trial.append((real_index(desc, w), v, None if comps is None else comps[i]))
                    exp = {}
                    for idx, v, c_ in trial:
                        exp[idx] = exp.get(idx, fr(ev["pre"][idx])) + fr(v)
                    if all(near(float(ev["post"][idx]), e, scale=abs(float(e))) for idx, e in exp.items()):
                        for idx, v, c_ in trial:
                            L.add(idx, v, None if c_ is None else {k: fr(f) * fr(v) for k, f in c_.items()})
                        applied = True
                        ctx.count("event_rejected:prefix_applied")
                if not applied:
                    for w in ev["wells"]:
                        idx = real_index(desc, w)
                        if idx is not None:
                            L.wells[idx].unknown = True
                            L.wells[idx].vol = fr(ev["post"][idx])
                    ctx.count("event_rejected:resynchronised")
                continue
            if ev["kind"] == "remove":
                for w, v in zip(ev["wells"], ev["volumes"]):
                    idx = real_index(desc, w)
                    fr_src = L.wells[idx].fractions()
                    L.remove(idx, v)
                    carry.append((ev["name"], idx, fr_src, float(v)))
            else:
                comps = ev.get("compositions")
                n = len(ev["wells"])
                for i, (w, v) in enumerate(zip(ev["wells"], ev["volumes"])):
                    idx = real_index(desc, w)
                    passed = None if comps is None else comps[i]
                    if kind in ("transfer", "distribute"):
                        src = carry[0] if kind == "distribute" else (carry.pop(0) if carry else None)
                        if src is None:
                            L.add(idx, v, None)
                            continue
                        sname, sidx, fr_src, sv = src
                        if fr_src is None or (sname, sidx) in self.poisoned:
                            self.src_known = False
                            L.add(idx, v, None)
                            continue
                        if not fr_src and float(v) <= 1e-9:
                            # (a float residue of ~1e-16 uL in a well that is empty in exact arithmetic counts as nothing)
                            # nothing is taken from an empty well: its mixture is undefined
                            ctx.count("zero_volume_from_empty_source")
                            L.add(idx, v, {})
                            continue
                        # the composition handed to the destination must be the source well's mixture
                        okp = isinstance(passed, dict) and all(
                            near(float(passed.get(k, 0.0)), fr_src.get(k, Fraction(0)), scale=1.0, abs_=1e-9)
                            for k in set(passed) | set(fr_src)
                        )
                        # how the mixture travels from source to destination is an implementation matter
                        # (observed for diagnostics); the verdict is on the resulting fractions below
                        ctx.count("observed:handed_over_composition_equals_source_mixture" if okp
                                  else "observed:handed_over_composition_differs_from_source_mixture")
                        L.add(idx, v, {k: f * fr(v) for k, f in fr_src.items()})
                    else:
                        if passed is None:
                            L.add(idx, v, None)
                        else:
                            L.add(idx, v, {k: fr(f) * fr(v) for k, f in passed.items()})
        # ---- compare every well
        nan_wells = []
        for name, lw in eng.world.lw.items():
            L = sh.lw[name]
            comp = lw.composition
            vols = eng.cur(name)
            for idx, W in L.wells.items():
                key = (name, idx)
                if key in self.poisoned:
                    continue
                rep = {k: float(a[idx]) for k, a in comp.items() if a.shape == vols.shape}
                fin = all(math.isfinite(f) and -1e-12 <= f <= 1 + 1e-9 for f in rep.values())
                if not fin:
                    nan_wells.append((name, idx, rep))
                    continue
                ctx.count("wells_with_finite_fractions")
                if W.unknown or W.vol <= Fraction(1, 10**9):
                    continue
                exact = W.fractions()
                ok = all(near(rep.get(k, 0.0), exact.get(k, Fraction(0)), scale=1.0, abs_=1e-9) for k in set(rep) | set(exact))
                ctx.check(
                    "fractions_equal_exact_volume_weighted_mixture",
                    ok,
                    lambda: {"op": enc(op), "labware": name, "well": list(idx), "reported": {k: f for k, f in rep.items() if f},
                             "exact": {k: float(f) for k, f in exact.items()}, "volume": float(W.vol), "history_tail": eng.tail()},
                )
                ctx.check(
                    "fractions_sum_to_one_in_nonempty_well",
                    abs(sum(rep.values()) - 1.0) <= 1e-9,
                    lambda: {"op": enc(op), "labware": name, "well": list(idx), "reported": rep, "history_tail": eng.tail()},
                )
                if len([1 for f in exact.values() if f > 0]) >= 2:
                    self.multi = True
        # ---- non-finite fractions: classify the D7 mechanism (0/0: zero volume with a composition
        #      into an empty well), everything else is an unlisted violation
        if nan_wells:
            zero_targets, first_seen = set(), set()
            for n_, w_, v_ in hist.elements(op):
                idx = real_index(eng.descs[n_], w_)
                if idx is None or v_ < 0 or (n_, idx) in first_seen:
                    continue
                first_seen.add((n_, idx))
                # the first element that reaches this (empty) well adds zero volume with a composition
                if v_ == 0 and self.pre_vol[n_][idx] == 0 and (op.get("comps") is not None or kind == "distribute"):
                    zero_targets.add((n_, idx))
            for name, idx, rep in nan_wells:
                mech = (name, idx) in zero_targets
                ctx.violation(
                    "fractions_finite_and_within_unit_interval",
                    {"op": enc(op), "labware": name, "well": list(idx), "reported": enc(rep), "volume_before": float(self.pre_vol[name][idx]),
                     "history_tail": eng.tail()},
                    key=D7 if mech else None,
                )
                self.poisoned.add((name, idx))
        else:
            ctx.check("fractions_finite_and_within_unit_interval", True)
        # ---- conservation of every component over all labware for successful transfers
        if out.exc is None and kind in ("transfer", "distribute") and self.src_known and not nan_wells and not self.poisoned:
            post = self.totals(eng)
            scale = max([1.0] + [abs(x) for x in self.pre_tot.values()])
            ok = all(abs(post.get(k, 0.0) - self.pre_tot.get(k, 0.0)) <= 1e-9 * scale for k in set(post) | set(self.pre_tot))
            ctx.check(
                "component_totals_conserved_by_transfer",
                ok,
                lambda: {"op": enc(op), "before": self.pre_tot, "after": post, "history_tail": eng.tail()},
            )
            if kind == "transfer" and op["src"] == op["dst"]:
                ctx.count("conservation_on_same_labware_transfer")
            if eng.descs[op["src"]]["kind"] == "trough":
                ctx.count("conservation_on_trough_source")
        # zero-volume step with a composition observed?
        if any(v_ == 0 for _, _, v_ in hist.elements(op)) and (op.get("comps") is not None or kind == "distribute"):
            ctx.count("zero_volume_step_with_composition")


def n_cases(tier):
    return 800 if tier == "quick" else 35000


def _rename(rng, d):
    """Apply a naming mode to a labware description (explicit / partial / shared / default)."""
    rows = 1 if d["kind"] == "trough" else d["rows"]
    filled = [(r, c) for r in range(rows) for c in range(d["columns"]) if d["initial"][r][c] > 0]
    mode = rng.choice(["explicit", "partial", "shared", "default", "default"])
    d["naming"] = mode
    if mode == "default" or not filled:
        d["names"] = None
    elif mode == "explicit":
        d["names"] = {f"{r},{c}": f"{d['name']}@{r}.{c}" for r, c in filled}
    elif mode == "partial":
        d["names"] = {f"{r},{c}": f"named {r}.{c}" for r, c in filled if rng.random() < 0.5} or None
        if d["names"] is not None and rng.random() < 0.3:
            # a user-given name that happens to read like the default name of another, unnamed well
            # ("plate.B01" for A01): the two wells then legitimately share one component
            unnamed = [(r, c) for r, c in filled if f"{r},{c}" not in d["names"]]
            if unnamed:
                r2, c2 = rng.choice(unnamed)
                k = rng.choice(sorted(d["names"]))
                d["names"][k] = (f"{d['name']}.column_{c2 + 1:02d}" if d["kind"] == "trough"
                                 else f"{d['name']}.{'ABCDEFGHIJKLMNOPQRSTUVWXYZ'[r2]}{c2 + 1:02d}")
                d["name_like_default_of"] = f"{r2},{c2}"
        if d["names"] is not None and rng.random() < 0.5:
            # an explicit None means "not named": the default applies
            for r, c in filled:
                if f"{r},{c}" not in d["names"] and rng.random() < 0.5:
                    d["names"][f"{r},{c}"] = None
    else:
        pool = ["water", "stock", "glucose µ"]
        d["names"] = {f"{r},{c}": rng.choice(pool) for r, c in filled}
    return d


def gen_case(rng, tier, index):
    vclass = rng.choice(["int", "quarter", "cent", "dirty"])
    wl = gen.gen_worklist_cfg(rng)
    wl["max_volume"] = rng.choice([950, 950, 200, 100])
    wt = gen.gen_worktable(rng, vclass=vclass if vclass != "dirty" else "cent", limits=rng.choice(["loose", "loose", "tight"]),
                           need_trough=rng.random() < 0.6, small=True)
    for d in wt:
        _rename(rng, d)
    gen.sync_twins(wt)
    if rng.random() < 0.12:
        wl["auto_split"] = False
    n_ops = rng.choice([5, 10, 20, 40, 80 if tier == "thorough" else 40])
    return {"worklist": wl, "worktable": wt, "n_ops": n_ops, "opseed": rng.getrandbits(48), "profile": "composition", "vclass": vclass}


def run_case(ctx, case):
    if case.get("naming_only"):
        d = case["worktable"][0]
        lw = build_labware(d)
        observed_names(ctx, d, lw)
        ctx.case(case, False)
        return
    mon = CompositionMonitor(ctx)
    eng = hist.Engine(ctx, case, [mon])
    eng.run()
    c2 = {k: case[k] for k in ("worklist", "worktable", "n_ops", "opseed")}
    ctx.case(c2, mon.multi, sample=dict(c2, executed_operations_tail=eng.tail(4)))


def extra(ctx):
    """Enumerated naming cases: every geometry class x naming mode, default names."""
    import random

    k = 0
    for kind, geos in (("plate", [(1, 1), (1, 2), (1, 12), (2, 1), (8, 1), (2, 2), (3, 5), (8, 12), (16, 24), (26, 3)]),
                       ("trough", [(1, 1), (8, 1), (16, 1), (1, 2), (8, 2), (4, 4), (26, 24)])):
        for (a, b) in geos:
            for fill in ("all", "some"):
                k += 1
                if k % ctx.nshards != ctx.shard:
                    continue
                rng = random.Random(f"naming:{kind}:{a}:{b}:{fill}")
                rows, cols = (1, b) if kind == "trough" else (a, b)
                init = [[(10.0 + r + c if (fill == "all" or rng.random() < 0.6) else 0.0) for c in range(cols)] for r in range(rows)]
                d = {"kind": kind, "name": f"lw {kind} {a}x{b}", "rows": rows, "columns": cols, "virtual_rows": a if kind == "trough" else None,
                     "min_volume": 0.0, "max_volume": 1000.0, "initial": init, "names": None, "naming": "default"}
                case = {"naming_only": True, "worktable": [d]}
                ctx.current_case = case
                run_case(ctx, case)
    ctx.current_case = None


def gates(stats, tier):
    c = stats["counters"]
    r = []
    for k in ("rule:fractions_equal_exact_volume_weighted_mixture", "rule:fractions_sum_to_one_in_nonempty_well",
              "rule:component_totals_conserved_by_transfer",
              "rule:hook.remove_keeps_composition", "rule:initially_one_100_percent_component_per_filled_well",
              "rule:explicit_names_used_verbatim", "rule:default_names_distinct_per_well", "rule:single_well_labware_named_after_labware",
              "conservation_on_same_labware_transfer", "conservation_on_trough_source", "zero_volume_step_with_composition",
              "naming:explicit", "naming:partial", "naming:multi_well_default", "naming:single_well_default",
              "accepted:transfer", "accepted:distribute", "accepted:dispense"):
        if not c.get(k):
            r.append(f"never evaluated/observed: {k}")
    if stats["distinct_nontrivial"] < (50 if tier == "quick" else 1000):
        r.append("too few distinct non-trivial cases")
    return r
