"""C18 - column partitioning keeps triples intact, groups by column, orders by row; auto rule."""
from __future__ import annotations

from collections import Counter

import numpy as np

from .. import attach
from ..attach import to_nested

ID = "C18"
TITLE = "Column partitioning keeps triples intact, groups by column and orders by row"
LEVEL = "exploration"
TECHNIQUE = (
    "runtime monitoring: multiset / grouping / ordering oracle on every return value of partition_by_column "
    "(direct calls and calls observed in situ through a wrapper while transfers run), decision-table oracle on "
    "optimize_partition_by"
)
ATTACH = ("labware", "worklist")
RULE = (
    "cases = direct calls partition_by_column(sources, destinations, volumes, mode) with lists of length 0..40, "
    "rows A..Z, columns 1..99, heavy repetition / equal keys, int / float / mixed volumes, list / tuple / numpy "
    "containers, both modes and invalid mode names; calls optimize_partition_by on real Labware / Trough objects "
    "(4 trough combinations x {auto, source, destination} + invalid names); EvoWorklist / FluentWorklist.transfer "
    "calls whose inner partition_by_column / optimize_partition_by calls are judged with the same oracle; "
    "non-trivial = valid call whose result must have >= 2 groups or a group with >= 2 triples (>= 2 input "
    "triples); distinct = distinct argument hashes"
)
ASSUMPTIONS = [
    "column of a well id = the id without its first character; ids use 2-digit columns 01..99 (domain of the "
    "statement), so the code's string order of columns coincides with numeric order",
    "elements are compared by value (str(x), float(x)): numpy scalars in the returned lists are accepted",
    "one group per column is demanded (a partition BY column); empty groups are not judged",
    "partition_by_column knows two modes, 'source' and 'destination' (its documentation); 'auto' is resolved by "
    "optimize_partition_by beforehand and is, passed directly to partition_by_column, one of the 'other mode names' "
    "- with any list of triples, the empty one included",
    "lists of unequal length, NaN / negative volumes are not generated",
    "is-a-trough is taken from how the harness built the object (robotools.Trough vs robotools.Labware)",
]

LETTERS = "ABCDEFGHIJKLMNOPQRSTUVWXYZ"
INVALID_MODES = ["Source", "DESTINATION", "src", "dst", "dest", "", "column", "both", "sources", "destination ",
                 " source", "row", None, 0, 1, "none"]
VALID = ("source", "destination")
PBC = "robotools.worklists.utils.partition_by_column"
OPB = "robotools.worklists.utils.optimize_partition_by"


def wid(r, c):
    return LETTERS[r] + ("%02d" % (c + 1))


def n_cases(tier):
    return 30000 if tier == "quick" else 1000000


def _n_insitu(tier):
    return 400 if tier == "quick" else 10000


def _n_opt(tier):
    return 600 if tier == "quick" else 20000


# ---------------------------------------------------------------------------------------------
# generation
# ---------------------------------------------------------------------------------------------
def _gen_wells(rng, n, profile):
    if n == 0:
        return []
    if profile == "ties":
        pool = [wid(rng.randrange(26), rng.randrange(99)) for _ in range(rng.randint(1, 4))]
        return [rng.choice(pool) for _ in range(n)]
    if profile == "one_column":
        c = rng.randrange(99)
        rows = rng.randint(1, 26)
        return [wid(rng.randrange(rows), c) for _ in range(n)]
    if profile == "few_columns":
        cols = [rng.randrange(99) for _ in range(rng.randint(2, 5))]
        rows = rng.choice([2, 4, 8, 8, 16, 26])
        return [wid(rng.randrange(rows), rng.choice(cols)) for _ in range(n)]
    if profile == "boundary":
        cols = [0, 1, 8, 9, 10, 18, 19, 20, 88, 89, 97, 98]
        return [wid(rng.randrange(rng.choice([3, 26])), rng.choice(cols)) for _ in range(n)]
    if profile == "plate":
        R, C = rng.choice([(8, 12), (16, 24), (4, 6), (2, 3), (1, 12), (8, 1)])
        return [wid(rng.randrange(R), rng.randrange(C)) for _ in range(n)]
    return [wid(rng.randrange(26), rng.randrange(99)) for _ in range(n)]  # wide


def _gen_volumes(rng, n):
    style = rng.choice(["int", "float", "mixed", "unique", "unique", "const", "npint"])
    if style == "int" or style == "npint":
        return [rng.randint(0, 30) for _ in range(n)], style
    if style == "float":
        return [rng.choice([0.5, 1.25, 10.0, 99.99, 950.0, rng.randint(1, 4000) / 4.0]) for _ in range(n)], style
    if style == "mixed":
        return [rng.choice([rng.randint(1, 9), rng.randint(1, 40) / 4.0]) for _ in range(n)], style
    if style == "const":
        return [rng.choice([100, 12.5])] * n, style
    base = rng.randint(1, 500)
    return [base + i + (0.5 if rng.random() < 0.5 else 0.0) for i in range(n)], style


PROFILES = ("ties", "one_column", "few_columns", "few_columns", "boundary", "plate", "plate", "wide")


def _gen_partition(rng):
    u = rng.random()
    n = 0 if u < 0.02 else 1 if u < 0.05 else rng.randint(2, 40)
    pb = rng.choice(VALID)
    key = _gen_wells(rng, n, rng.choice(PROFILES))
    other = _gen_wells(rng, n, rng.choice(PROFILES))
    order = rng.choice(["random", "random", "sorted", "reversed"])
    if order == "sorted":
        key.sort()
    elif order == "reversed":
        key.sort(reverse=True)
    vols, vstyle = _gen_volumes(rng, n)
    s, d = (key, other) if pb == "source" else (other, key)
    form = rng.choice(["list", "list", "array", "array", "tuple", "mixed", "iterator"])
    if vstyle == "npint":
        form = "array"
    case = {"call": "partition_by_column", "s": s, "d": d, "v": vols, "pb": pb, "form": form}
    if rng.random() < 0.04:
        case["pb"] = rng.choice(INVALID_MODES + ["auto"])
        if rng.random() < 0.25:
            # an unknown mode name is refused whatever the lists hold - also when they hold nothing
            case["s"], case["d"], case["v"] = [], [], []
    return case


def _gen_geom(rng, trough):
    if trough:
        return {"trough": True, "rows": rng.choice([1, 2, 4, 6, 8, 8, 12, 16]), "cols": rng.choice([1, 1, 2, 3, 4, 8, 12])}
    return {"trough": False, "rows": rng.choice([1, 2, 4, 8, 8, 16, rng.randint(1, 16)]),
            "cols": rng.choice([1, 3, 6, 12, 12, 24, rng.randint(1, 30)])}


def _gen_opt(rng, k):
    st, dt = bool(k & 1), bool(k & 2)
    names = ["auto", "source", "destination"]
    pb = names[(k >> 2) % 3] if (k % 16) < 12 else rng.choice(INVALID_MODES)
    return {"call": "optimize_partition_by", "src": _gen_geom(rng, st), "dst": _gen_geom(rng, dt), "pb": pb,
            "label": rng.choice([None, "step", "", "50 % (v/v)", "{0} %s"]),
            "names": rng.choice([["S", "D"], ["S", "D"], ["EtOH_70%", "plate {0}"], ["100%s", "%d wells"], ["Glucose 20% (w/v)", "D"],
                                 ["{name}", "{}"], ["S", "MTP-96 %"]])}


def _gen_insitu(rng):
    st, dt = rng.random() < 0.4, rng.random() < 0.3
    src, dst = _gen_geom(rng, st), _gen_geom(rng, dt)
    n = rng.choice([1, 2, 3, 5, 8, 12, 16, 24, rng.randint(1, 40)])
    pick = lambda g: wid(rng.randrange(g["rows"]), rng.randrange(g["cols"]))
    sw = [pick(src) for _ in range(n)]
    dw = [pick(dst) for _ in range(n)]
    if rng.random() < 0.15:
        sw = [sw[0]]  # broadcast of a single source well
    vols, _ = _gen_volumes(rng, n)
    vols = [v if v > 0 or rng.random() < 0.3 else 1 for v in vols]
    if rng.random() < 0.2:
        vols = [v * rng.choice([1, 1, 40]) for v in vols]  # some above the 950 uL step limit: split steps
    if rng.random() < 0.1:
        vols = [vols[0]]
    form = rng.choice(["list", "array", "col2d"])
    return {"call": "transfer", "device": rng.choice(["evo", "fluent"]), "src": src, "dst": dst, "sw": sw, "dw": dw,
            "vol": vols, "pb": rng.choice(["auto", "auto", "source", "destination"]), "form": form,
            "wash": rng.choice([1, 1, 2, "flush", "reuse"]),
            "names": rng.choice([["src", "dst"], ["src", "dst"], ["src", "dst"], ["EtOH_70%", "MTP %d"], ["{0}", "dst %s"]])}


def gen_case(rng, tier, index):
    ni, no = _n_insitu(tier), _n_opt(tier)
    if index < ni:
        return _gen_insitu(rng)
    if index < ni + no:
        return _gen_opt(rng, index - ni)
    return _gen_partition(rng)


# ---------------------------------------------------------------------------------------------
# oracle for one partition_by_column call
# ---------------------------------------------------------------------------------------------
def _triples(s, d, v):
    return Counter((str(a), str(b), float(c)) for a, b, c in zip(s, d, v))


def _colnum(k):
    c = k[1:]
    return int(c) if c.isdigit() else None


def judge_partition(ctx, s, d, v, pb, out, exc, where):
    """s, d, v: flat python lists of the argument values (str / number); out: raw return value."""
    n = len(s)
    det = lambda extra=None: dict(
        {"where": where, "sources": [str(x) for x in s], "destinations": [str(x) for x in d],
         "volumes": [float(x) for x in v], "partition_by": pb, "returned": to_nested(out) if exc is None else None,
         "raised": repr(exc)},
        **(extra or {}),
    )
    if not (isinstance(pb, str) and pb in VALID):
        if pb == "auto":
            ctx.count("auto_passed_to_partition_by_column")
        ctx.count("invalid_mode")
        ctx.check("invalid_mode_raises", exc is not None, det)
        return
    ctx.count("mode:" + pb)
    ctx.count(where + ":valid_calls")
    if n == 0:
        ctx.count("empty_input")
    if not ctx.check("returns_for_valid_input", exc is None, det):
        return
    # structure: groups of three parallel sequences
    groups = []
    ok = True
    try:
        for g in out:
            gs, gd, gv = g
            gs, gd, gv = list(gs), list(gd), list(gv)
            if not (len(gs) == len(gd) == len(gv)):
                ok = False
            groups.append((gs, gd, gv))
    except Exception:
        ok = False
    if not ctx.check("groups_are_three_parallel_lists", ok, det):
        return
    if isinstance(out, list) and all(isinstance(x, list) for g in out for x in g):
        ctx.count("returned_lists")
    else:
        ctx.count("returned_other_containers(not judged)")
    # multiset of triples, read position-wise inside each group
    got = Counter()
    try:
        for gs, gd, gv in groups:
            got.update(_triples(gs, gd, gv))
        same = got == _triples(s, d, v)
    except Exception:
        same = False
    ctx.check("triples_preserved_as_multiset", same,
              lambda: det({"missing": [list(t) for t in (_triples(s, d, v) - got)][:10],
                           "unexpected": [list(t) for t in (got - _triples(s, d, v))][:10]}))
    side = 0 if pb == "source" else 1
    keys = [[str(k) for k in g[side]] for g in groups]
    if any(len(k) == 0 for k in keys):
        ctx.count("empty_group_returned(not judged)")
    keys = [k for k in keys if k]
    ctx.check("group_holds_single_column", all(len({k[1:] for k in ks}) == 1 for ks in keys), det)
    cols = [_colnum(ks[0]) for ks in keys]
    numeric = all(c is not None for c in cols)
    ctx.check("groups_ascending_by_column", numeric and all(a <= b for a, b in zip(cols, cols[1:])),
              lambda: det({"group_columns": cols}))
    ctx.check("one_group_per_column", len(set(ks[0][1:] for ks in keys)) == len(keys), lambda: det({"group_columns": cols}))
    ctx.check("rows_ascending_within_group", all(all(a[0] <= b[0] for a, b in zip(ks, ks[1:])) for ks in keys), det)
    # input classes
    kin = [str(x) for x in (s if pb == "source" else d)]
    cnt = Counter(kin)
    if any(c > 1 for c in cnt.values()):
        ctx.count("ties(equal wells on the partitioning side)")
    if len(keys) >= 2:
        ctx.count("two_or_more_groups")
    if any(len(ks) >= 2 for ks in keys):
        ctx.count("group_with_two_or_more_triples")
    if any(len(ks) > 6 for ks in keys):
        ctx.count("group_with_more_than_six_triples")
    if numeric and cols and max(cols) >= 10 and min(cols) < 10:
        ctx.count("columns_below_and_above_10")


def _container(x, form, numeric=False):
    if form == "array":
        return np.array(x) if x or not numeric else np.array(x, dtype=float)
    if form == "tuple":
        return tuple(x)
    if form == "iterator":
        return iter(list(x))  # the parameters are documented as Iterable: a one-shot iterator is legal
    return list(x)


_SETUP = {"done": False}


def _setup():
    """Wrap the two functions wherever robotools bound them by name (once per process)."""
    att = attach.current()
    if not _SETUP["done"] or PBC not in att.spies:
        attach.spy(PBC)
        attach.spy(OPB)
        _SETUP["done"] = True
    att.keep_spy_log = True
    return att


def _run_partition(ctx, case):
    from robotools.worklists import utils

    s, d, v, pb, form = case["s"], case["d"], case["v"], case["pb"], case["form"]
    ctx.feature("container", form)
    fs = "array" if form in ("array", "mixed") else form
    fd = "list" if form == "mixed" else form
    a_s, a_d, a_v = _container(s, fs), _container(d, fd), _container(v, fs, numeric=True)
    if form in ("array", "mixed"):
        ctx.count("numpy_array_input")
    if any(isinstance(x, int) for x in v) and any(isinstance(x, float) for x in v):
        ctx.count("mixed_int_float_volumes")
    try:
        out, exc = utils.partition_by_column(a_s, a_d, a_v, pb), None
    except Exception as e:
        out, exc = None, e
    valid = isinstance(pb, str) and pb in VALID
    ctx.case(case, valid and len(s) >= 2)
    judge_partition(ctx, s, d, v, pb, out, exc, "direct")
    if valid and exc is None and isinstance(out, list) and out and form != "iterator" and (len(s) + len(out)) % 3 == 0:
        # the groups belong to the caller (who works the triples off by popping them): an equal question asked
        # afterwards gets the complete answer again
        try:
            for g in out:
                for part in g:
                    if isinstance(part, list) and part:
                        part.pop()
                        part.append("X99")
        except Exception:
            return
        ctx.count("asked_again_after_editing_the_groups")
        try:
            out2, exc2 = utils.partition_by_column(_container(s, fs), _container(d, fd), _container(v, fs, numeric=True), pb), None
        except Exception as e:
            out2, exc2 = None, e
        judge_partition(ctx, s, d, v, pb, out2, exc2, "direct, asked again")


# ---------------------------------------------------------------------------------------------
# optimize_partition_by
# ---------------------------------------------------------------------------------------------
def _build(geom, name, fill=0.0):
    import robotools

    if geom["trough"]:
        if (geom["rows"] + geom["cols"]) % 3 == 0:
            # legacy construction of a trough (Labware with virtual rows, not an instance of Trough)
            return robotools.Labware(name, 1, geom["cols"], min_volume=0, max_volume=1e9, initial_volumes=fill,
                                     virtual_rows=geom["rows"])
        return robotools.Trough(name, geom["rows"], geom["cols"], min_volume=0, max_volume=1e9, initial_volumes=fill)
    return robotools.Labware(name, geom["rows"], geom["cols"], min_volume=0, max_volume=1e9, initial_volumes=fill)


def judge_optimize(ctx, src_trough, dst_trough, pb, res, exc, where, info):
    det = lambda: dict(info, where=where, source_is_trough=src_trough, destination_is_trough=dst_trough,
                       partition_by=pb, returned=res if isinstance(res, (str, type(None))) else repr(res),
                       raised=repr(exc))
    combo = f"src={'trough' if src_trough else 'plate'},dst={'trough' if dst_trough else 'plate'}"
    if isinstance(pb, str) and pb == "auto":
        ctx.feature("combination", combo + ",auto")
        want = "destination" if (src_trough and not dst_trough) else "source"
        ctx.count("auto_expected:" + want)
        ctx.check("auto_is_destination_iff_trough_source_and_plate_destination", exc is None and res == want, det)
    elif isinstance(pb, str) and pb in VALID:
        ctx.feature("combination", combo + "," + pb)
        ctx.check("explicit_choice_returned_unchanged", exc is None and res == pb, det)
    else:
        ctx.count("invalid_name")
        ctx.feature("invalid_name_with", combo)
        ctx.check("invalid_name_raises", exc is not None, det)


def _run_opt(ctx, case):
    from robotools.worklists import utils

    nS, nD = case.get("names") or ("S", "D")  # labware names are free text
    S, D = _build(case["src"], nS), _build(case["dst"], nD)
    if (nS, nD) != ("S", "D"):
        ctx.count("free_text_labware_names")
    try:
        res, exc = utils.optimize_partition_by(S, D, case["pb"], case.get("label")), None
    except Exception as e:
        res, exc = None, e
    ctx.case(case, False)
    judge_optimize(ctx, case["src"]["trough"], case["dst"]["trough"], case["pb"], res, exc, "direct",
                   {"source": case["src"], "destination": case["dst"]})


# ---------------------------------------------------------------------------------------------
# in situ: transfers, judged through the wrapper log
# ---------------------------------------------------------------------------------------------
def _shape(x, form, n_rows_hint=None):
    if form == "array":
        return np.array(x)
    if form == "col2d" and len(x) >= 2 and len(x) % 2 == 0:
        # 2 x k array whose column-major reading is x
        k = len(x) // 2
        return np.array([[x[2 * j + i] for j in range(k)] for i in range(2)])
    return list(x)


def _run_transfer(ctx, case):
    from ..world import build_worklist

    att = _setup()
    nS, nD = case.get("names") or ("src", "dst")
    src = _build(case["src"], nS, fill=5e8)
    dst = _build(case["dst"], nD, fill=5e8)
    wl = build_worklist({"max_volume": 950, "auto_split": True}, case["device"])
    for lg in att.spy_log.values():
        lg.clear()
    form = case["form"]
    sw, dw, vol = _shape(case["sw"], form), _shape(case["dw"], form), _shape(case["vol"], form)
    try:
        wl.transfer(src, sw, dst, dw, vol, label="t", wash_scheme=case["wash"], partition_by=case["pb"])
        exc = None
    except attach.MonitorAbort:
        raise
    except Exception as e:
        exc = e
    ctx.count("insitu:transfers:" + case["device"])
    if exc is not None:
        ctx.count("insitu:transfer_raised:" + type(exc).__name__)
    plog = list(att.spy_log.get(PBC, ()))
    olog = list(att.spy_log.get(OPB, ()))
    for lg in att.spy_log.values():
        lg.clear()
    nmax = max(len(case["sw"]), len(case["dw"]), len(case["vol"]))
    ctx.case(case, nmax >= 2 and bool(plog))
    names = ("sources", "destinations", "volumes", "partition_by")
    expected_mode = None
    for a, kw, res, oexc in olog:
        args = dict(zip(("source", "destination", "partition_by", "label"), a))
        args.update(kw)
        ctx.count("insitu:optimize_calls")
        st = args.get("source") is src and case["src"]["trough"] or (args.get("source") is dst and case["dst"]["trough"])
        dt = args.get("destination") is dst and case["dst"]["trough"] or (
            args.get("destination") is src and case["src"]["trough"])
        judge_optimize(ctx, bool(st), bool(dt), args.get("partition_by"), res, oexc, "in situ",
                       {"device": case["device"]})
        expected_mode = ("destination" if (st and not dt) else "source") if args.get("partition_by") == "auto" else args.get(
            "partition_by")
    for a, kw, res, pexc in plog:
        args = dict(zip(names, a))
        args.update(kw)
        ctx.count("insitu:partition_calls:" + case["device"])
        s = [x for x in attach.flat_f(args["sources"])]
        d = [x for x in attach.flat_f(args["destinations"])]
        v = [x for x in attach.flat_f(args["volumes"])]
        if isinstance(args["sources"], np.ndarray):
            ctx.count("numpy_array_input")
        if expected_mode is not None:
            ctx.check("transfer_partitions_by_the_chosen_side", args["partition_by"] == expected_mode,
                      lambda: {"device": case["device"], "requested": case["pb"], "source_is_trough": case["src"]["trough"],
                               "destination_is_trough": case["dst"]["trough"], "passed_on": args["partition_by"]})
        judge_partition(ctx, s, d, v, args["partition_by"], res, pexc, "in situ")


def run_case(ctx, case):
    case = {k: v for k, v in case.items() if k != "index"}  # the running number is not an input
    call = case["call"]
    if call == "partition_by_column":
        _run_partition(ctx, case)
    elif call == "optimize_partition_by":
        _run_opt(ctx, case)
    elif call == "transfer":
        _run_transfer(ctx, case)
    else:
        raise ValueError(call)


# ---------------------------------------------------------------------------------------------
# enumerated part: the complete decision table, invalid names, literal examples
# ---------------------------------------------------------------------------------------------
def extra(ctx):
    todo = []
    geoms = {
        False: [{"trough": False, "rows": 8, "cols": 12}, {"trough": False, "rows": 1, "cols": 1},
                {"trough": False, "rows": 1, "cols": 6}, {"trough": False, "rows": 16, "cols": 24}],
        True: [{"trough": True, "rows": 8, "cols": 1}, {"trough": True, "rows": 1, "cols": 1},
               {"trough": True, "rows": 4, "cols": 3}],
    }
    for st in (False, True):
        for dt in (False, True):
            for gs in geoms[st]:
                for gd in geoms[dt]:
                    for pb in ["auto", "source", "destination"] + INVALID_MODES:
                        for label in (None, "label"):
                            todo.append({"call": "optimize_partition_by", "src": gs, "dst": gd, "pb": pb, "label": label})
    # literal examples: every mode x a few hand-made lists (ties, one column, columns 9/10/11, 99)
    ex = [
        (["A01", "B01", "A02", "B02", "A03"], ["A01", "B03", "C02", "B02", "A01"], [1, 2, 3, 4, 5]),
        (["B01", "A01", "B01", "A01"], ["H12", "G12", "F12", "E12"], [4.5, 3, 2, 1]),
        (["A11", "A10", "A09", "A99", "A01"], ["D05"] * 5, [5, 4, 3, 2, 1]),
        (["Z99", "A99", "M99"], ["A01", "A01", "A01"], [1.5, 1.5, 1.5]),
        (["C03"], ["D04"], [7]),
        ([], [], []),
        (["A02"] * 8 + ["A01"] * 2, [wid(r, 0) for r in range(10)], list(range(10, 20))),
    ]
    for s, d, v in ex:
        for pb in list(VALID) + INVALID_MODES[:4]:
            for form in ("list", "array", "tuple", "mixed"):
                todo.append({"call": "partition_by_column", "s": s, "d": d, "v": v, "pb": pb, "form": form})
                todo.append({"call": "partition_by_column", "s": d, "d": s, "v": v, "pb": pb, "form": form})
    att = attach.current()
    for i in range(ctx.shard, len(todo), ctx.nshards):
        case = todo[i]
        ctx.current_case = case
        run_case(ctx, case)
        ctx.count("enumerated_calls")
        if att is not None:
            for lg in att.spy_log.values():
                lg.clear()
    ctx.current_case = None


DECIDING = (
    "returns_for_valid_input",
    "groups_are_three_parallel_lists",
    "triples_preserved_as_multiset",
    "group_holds_single_column",
    "groups_ascending_by_column",
    "one_group_per_column",
    "rows_ascending_within_group",
    "invalid_mode_raises",
    "auto_is_destination_iff_trough_source_and_plate_destination",
    "explicit_choice_returned_unchanged",
    "invalid_name_raises",
    "transfer_partitions_by_the_chosen_side",
)


def gates(stats, tier):
    c = stats["counters"]
    f = stats["features"]
    r = []
    for rule in DECIDING:
        if not c.get("rule:" + rule):
            r.append(f"deciding rule never evaluated: {rule}")
    for k in ("mode:source", "mode:destination", "ties(equal wells on the partitioning side)", "two_or_more_groups",
              "group_with_two_or_more_triples", "group_with_more_than_six_triples", "columns_below_and_above_10",
              "empty_input", "invalid_mode", "invalid_name", "numpy_array_input", "mixed_int_float_volumes",
              "auto_expected:source", "auto_expected:destination", "insitu:transfers:evo", "insitu:transfers:fluent",
              "insitu:partition_calls:evo", "insitu:partition_calls:fluent", "insitu:optimize_calls",
              "in situ:valid_calls", "direct:valid_calls"):
        if not c.get(k):
            r.append(f"never observed: {k}")
    combos = set(f.get("combination", ()))
    want = {f"src={s},dst={d},{m}" for s in ("plate", "trough") for d in ("plate", "trough")
            for m in ("auto", "source", "destination")}
    if want - combos:
        r.append("decision-table combinations never observed: " + ", ".join(sorted(want - combos)))
    if len(set(f.get("invalid_name_with", ()))) < 4:
        r.append("invalid names not observed with all four trough combinations")
    for form in ("list", "array", "tuple", "mixed"):
        if form not in set(f.get("container", ())):
            r.append(f"container never observed: {form}")
    need = 200 if tier == "quick" else 5000
    n_in = c.get("insitu:partition_calls:evo", 0) + c.get("insitu:partition_calls:fluent", 0)
    if n_in < need:
        r.append(f"too few in-situ partition_by_column calls judged: {n_in} < {need}")
    spies = stats.get("attach", {}).get("spy_calls", {})
    for q in (PBC, OPB):
        if not spies.get(q):
            r.append(f"wrapper saw no call: {q}")
    if stats["distinct_nontrivial"] < (50 if tier == "quick" else 1000):
        r.append(f"too few distinct non-trivial cases: {stats['distinct_nontrivial']}")
    return r
