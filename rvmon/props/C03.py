"""C03 - a worklist never contains a rejected or oversized pipetting step, even on abort."""
from __future__ import annotations

import copy
import math
import os
from fractions import Fraction
from pathlib import Path

import numpy as np

from .. import attach, env, gen, gwl, hist
from ..attach import flat_f, fr
from ..core import dec, enc

ID = "C03"
TITLE = "A worklist never contains a rejected or oversized pipetting step, even on abort"
LEVEL = "fault_enumeration"
TECHNIQUE = (
    "runtime monitoring: an independent interpreter with limit checking replays the record list incrementally at "
    "every append (hook on the list mutators), so every abort point has already been judged; the refused sub-step k "
    "of the last operation is enumerated"
)
ATTACH = ("labware", "worklist")
RULE = (
    "cases = a successful prefix of 0..8 online-generated operations followed by one operation steered to be refused "
    "at sub-step k (k-th pair of a transfer by source underflow / destination overflow, k-th well of aspirate/"
    "dispense/evo_aspirate/evo_dispense, distribute with insufficient source or a nearly full k-th destination, "
    "step > max_volume with auto_split off, invalid argument at position k: unknown well id, tip 9, ';' in a text "
    "field), all labware configurations, both devices, one third inside a `with` block whose file is read back; "
    "a case is non-trivial when the last operation was refused after at least one record had been appended or at a "
    "sub-step k >= 1; distinct = distinct (worktable, seed, fault) hashes"
)
ASSUMPTIONS = [
    "the property is a predicate of the record list, which changes only through list mutations: judging the list at "
    "every append covers every later abort point (signals, exceptions in unrelated code)",
    "tolerance of the replay: 0.005 uL per record that touched the well (two-decimal rounding of the format)",
    "after the first exception the program stops (the statement covers the moments up to and including it)",
]
LEVEL_TEXT = (
    "Fault enumeration: for every kind of refusal the failing sub-step position k is drawn over the whole operation "
    "and the record list is judged at every append by an independent limit-checking interpreter, plus the file "
    "written by __exit__. Held = no replayed record ever crossed a limit or max_volume in the executions observed."
)
HOOK_RULES = ("monitor_error",)

D5 = "C03.distribute_emit_before_check"

FAULT_PROFILE = {
    "ops": {"aspirate": 3, "dispense": 3, "transfer": 6, "distribute": 3, "evo_aspirate": 1, "evo_dispense": 1},
    "aims": {"exact": 0.5, "ulp": 2, "beyond": 5, "huge": 1, "inf": 1, "cumulative": 2},
    "fault_rate": 1.0,
    "comps": 0.5,
    "stop_on_error": True,
    "wl_kwargs": 0.1,
    "split_bias": 0.3,
    "distinct_positions": False,
}
PREFIX_PROFILE = {
    "ops": {"aspirate": 2, "dispense": 2, "transfer": 6, "distribute": 2, "evo_aspirate": 1, "evo_dispense": 1, "comment": 1, "wash": 1, "commit": 1},
    "aims": {"zero": 1},
    "fault_rate": 0.0,
    "comps": 0.5,
    "stop_on_error": True,
    "wl_kwargs": 0.1,
    "split_bias": 0.3,
    "distinct_positions": False,
}


class FaultEngine(hist.Engine):
    def __init__(self, ctx, case, monitors):
        super().__init__(ctx, case, monitors, profile=dict(PREFIX_PROFILE))
        self.n_prefix = case["n_ops"] - 1
        self.fault = case["fault"]
        if self.fault["class"] == "nan":
            self.n_prefix = max(0, case["n_ops"] - 3)
        self._poison = None

    def gen_op(self):
        i = len(self.trace)
        if i < self.n_prefix:
            # (without auto_split the successful prefix must not ask for volumes above max_volume)
            self.profile = PREFIX_PROFILE if self.case["worklist"].get("auto_split", True) else dict(PREFIX_PROFILE, split_bias=0.0)
            kind = hist._weighted(self.rng, self.profile["ops"])
            if kind in ("comment", "wash", "commit"):
                return {"op": kind, "text": "prefix µ"} if kind == "comment" else {"op": kind}
            if kind in ("aspirate", "dispense"):
                return self.gen_single(kind)
            if kind == "transfer":
                return self.gen_transfer()
            if kind == "distribute":
                return self.gen_distribute() or self.gen_transfer()
            return self.gen_evo(kind) or self.gen_single("aspirate")
        # ---- the operation that must be refused
        self.profile = FAULT_PROFILE
        f = self.fault
        rng = self.rng
        kind = f["kind"]
        if kind in ("evo_aspirate", "evo_dispense") and self.device != "evo":
            kind = "aspirate" if kind == "evo_aspirate" else "dispense"
        if f["class"] == "nan":
            # A volume that is not a number at position k of an aspirate / dispense: the call has to be refused. Should
            # it return, the well it named still holds what it held (nothing was written for it), and the two steps
            # that follow are sized against THAT content - one of them is more than the well can give or take.
            j = i - self.n_prefix
            if j <= 0 or self._poison is None:
                self.profile = dict(PREFIX_PROFILE)
                op = self.gen_single("aspirate" if kind in ("aspirate", "evo_aspirate", "transfer") else "dispense")
                ids = flat_f(dec(op["wells"]))
                vols = [float(x) for x in flat_f(dec(op["vol"]))]
                if len(vols) == 1:
                    vols = vols * len(ids)
                k = rng.randrange(len(ids))
                vols[k] = math.nan
                name = op["lw"]
                idx = hist.real_index(self.descs[name], ids[k])
                self._poison = (name, ids[k], float(self.cur(name)[idx]))
                op["wells"] = ids if len(ids) > 1 else ids[0]
                op["vol"] = enc(vols if len(ids) > 1 else vols[0])
                op.pop("comps", None)
                op["_fault"] = ("nan", k)
                return op
            name, wid_, held = self._poison
            d = self.descs[name]
            if j == 1:
                v = max(held - d["min_volume"], 0.0) + rng.choice([1.0, 10.0, 0.5])
                kind2 = "aspirate"
            else:
                v = max(d["max_volume"] - held, 0.0) + rng.choice([1.0, 10.0, 0.5])
                kind2 = "dispense"
            if not (v <= self.wlmax):
                v = self.wlmax  # (one step cannot carry more; the other of the two follow-ups decides then)
            return {"op": kind2, "lw": name, "wells": wid_, "vol": float(v), "label": None, "_fault": ("after_nan", 0), "_shapes": ["scalar", "scalar"]}
        if f["class"] == "limit":
            for _ in range(20):
                if kind in ("aspirate", "dispense"):
                    op = self.gen_single(kind)
                elif kind == "transfer":
                    op = self.gen_transfer()
                elif kind == "distribute":
                    op = self.gen_distribute() or self.gen_transfer()
                else:
                    op = self.gen_evo(kind)
                if op.get("_fault"):
                    return op
            return op
        if f["class"] == "oversize":
            # a step above the worklist's max_volume (meaningful with auto_split off, where it must
            # raise InvalidOperationError; with auto_split on only aspirate/dispense are affected)
            self.profile = dict(PREFIX_PROFILE, ops={"aspirate": 1})
            if kind in ("evo_aspirate", "evo_dispense"):
                # per-tip volume list with the k-th entry above the worklist's max_volume
                op = self.gen_evo(kind)
                n = len(flat_f(dec(op["wells"])))
                vols = flat_f(dec(op["vol"]))
                vols = [float(v) for v in (vols * n if len(vols) == 1 else vols)]
                k = rng.randrange(n)
                vols[k] = self.wlmax + rng.choice([0.01, 1.0, 50.0, self.wlmax])
                op["vol"] = enc(vols)
                op["_fault"] = ("oversize", k)
                return op
            if kind == "transfer":
                op = self.gen_transfer()
                arg = "vol"
            elif kind in ("aspirate", "dispense"):
                op = self.gen_single(kind)
                arg = "vol"
            else:
                op = self.gen_transfer()
                arg = "vol"
            vols = [float(x) for x in flat_f(dec(op["vol"]))]
            n = max(len(vols), len(flat_f(dec(op.get("sw", op.get("wells"))))))
            if len(vols) == 1:
                vols = vols * n
            k = rng.randrange(len(vols))
            vols[k] = self.wlmax + rng.choice([0.01, 0.006, 1.0, 50.0, self.wlmax])
            op["vol"] = enc(vols)
            # the volume argument must keep the (flat) element order: present it as a flat list and
            # flatten the well arguments the same way
            for key in ("sw", "dw", "wells"):
                if key in op:
                    ids = flat_f(dec(op[key]))
                    op[key] = ids if len(ids) > 1 else ids[0]
            op["_fault"] = ("oversize", k)
            return op
        # invalid argument at position k
        self.profile = dict(PREFIX_PROFILE)
        if kind == "transfer":
            op = self.gen_transfer()
            keys = ["sw", "dw"]
        elif kind == "distribute":
            op = self.gen_distribute() or self.gen_transfer()
            keys = ["dw"]
        elif kind in ("aspirate", "dispense"):
            op = self.gen_single(kind)
            keys = ["wells"]
        else:
            op = self.gen_evo(kind) or self.gen_single("aspirate")
            keys = ["wells"]
        what = f.get("invalid", "well")
        if what == "well" or op["op"] in ("evo_aspirate", "evo_dispense", "distribute") and what != "well":
            key = rng.choice(keys)
            ids = flat_f(dec(op[key]))
            k = rng.randrange(len(ids))
            ids[k] = rng.choice(["Z99", "A00", "AA01", "a01", "B1", "H999"])
            op[key] = ids if len(ids) > 1 else ids[0]
            for other in ("sw", "dw", "wells", "vol"):
                if other in op and other != key:
                    flat = flat_f(dec(op[other]))
                    op[other] = enc(flat if len(flat) > 1 else flat[0])
            op["_fault"] = ("unknown_well:" + key, k)
        elif what == "tip":
            op["kw"] = enc({"tip": rng.choice([9, 0, -1])})
            op["_fault"] = ("tip", 0)
        else:
            op["kw"] = enc({"liquid_class": "a;b"})
            op["_fault"] = ("separator", 0)
        return op


TIGHT = Fraction(1, 10**6)


def _on_grid(v):
    """Is the number a multiple of 0.01 (as a decimal; float dust below 1e-9 ignored)?"""
    try:
        f = float(v)
    except Exception:
        return False
    if not math.isfinite(f) or abs(f) > 1e12:
        return False
    return abs(f * 100 - round(f * 100)) < 1e-7


class AppendJudge(hist.Monitor):
    """Incremental replay at every append + end-of-operation verdicts."""

    def __init__(self, ctx):
        self.ctx = ctx
        self.events = []  # (record index, record, limit events, oversize)
        self.nontrivial = False
        self.unjudgeable = False

    def start(self, eng):
        self.eng = eng
        # records carry two decimals: half a cent of slack per record that touched a well - unless every volume
        # requested so far (and the step limit that shapes the partitions) lies on the 0.01 grid, in which case
        # the records are exact and so is the replay
        self.on_grid = _on_grid(eng.case["worklist"]["max_volume"])
        self.interp = gwl.Interp(eng.case["worktable"], eng.device, check_limits=True,
                                 tol_per_record=TIGHT if self.on_grid else Fraction(1, 200))
        self.wlmax = fr(eng.case["worklist"]["max_volume"])
        self.wl_id = id(eng.world.wl)
        self.n_seen = 0
        self.pending = []
        eng.att.append_observers.append(self.on_append)

    def on_append(self, wl, record):
        if id(wl) != self.wl_id or self.unjudgeable:
            return
        ctx = self.ctx
        ctx.count("appends_judged")
        before = len(self.interp.limit_events)
        try:
            rec = gwl.parse(record)
        except gwl.GrammarError as e:
            ctx.count("unparseable_record")
            self.unjudgeable = True
            self.pending.append(("grammar", record, str(e)))
            return
        if rec.type in ("A", "D"):
            ok = rec.f["volume"] <= self.wlmax + Fraction(1, 200) + Fraction(1e-9) * self.wlmax
            ctx.count("step_volume_checked")
            if not ok:
                self.pending.append(("oversize", record, float(rec.f["volume"])))
        if rec.type == "R":
            ok = rec.f["multi_disp"] * rec.f["volume"] <= self.wlmax * (1 + Fraction(1e-9))
            ctx.count("multi_dispense_plan_checked")
            if not ok:
                self.pending.append(("multi", record, float(rec.f["multi_disp"] * rec.f["volume"])))
        if rec.type == "script" and rec.f["name"] in ("Aspirate", "Dispense"):
            for s in rec.f["slots"]:
                if s is not None and s > self.wlmax + Fraction(1, 200):
                    self.pending.append(("oversize", record, float(s)))
        try:
            if rec.type == "R" and eng_is_k1(self.eng, rec):
                # known finding K1 (property C01): judge the step on the device-correct source well
                c = (rec.f["src_start"] - 1) // self.interp.racks[rec.f["src_label"]].vrows
                rec.f["src_start"] = rec.f["src_end"] = 1 + c
                ctx.count("k1_source_range_normalised")
            self.interp.apply(rec)
        except gwl.ReplayError as e:
            ctx.count("unexecutable_record")
            self.unjudgeable = True
            self.pending.append(("replay", record, str(e)))
            return
        for ev in self.interp.limit_events[before:]:
            self.pending.append(("limit", record, ev))

    def before(self, eng, op):
        self.pending = []
        self.n0 = len(eng.world.wl)
        if self.on_grid:
            try:
                ok = all(_on_grid(v) for _, _, v in hist.elements(op))
            except Exception:
                ok = False
            if not ok:
                self.on_grid = False
                self.interp.tol = Fraction(1, 200)
                self.ctx.count("replay_tolerance_widened_for_off_grid_volumes")
        if self.on_grid:
            self.ctx.count("operations_replayed_exactly")

    def after(self, eng, op, out):
        ctx = self.ctx
        from robotools import InvalidOperationError, VolumeViolationException

        det = lambda extra=None: dict(
            {"op": enc(op), "raised": repr(out.exc), "appended_by_op": list(out.appended)[-8:], "n_appended": len(out.appended),
             "history_tail": eng.tail(4)}, **(extra or {}))
        # non-append mutations of the record list would invalidate the incremental replay
        nonappend = [m for (_, m, _) in out.list_log if m not in ("append",)]
        if nonappend:
            ctx.count("non_append_list_mutation")
            full = gwl.Interp(eng.case["worktable"], eng.device, check_limits=True)
            try:
                full.run(list(eng.world.wl))
                if full.limit_events:
                    self.pending.append(("limit", "<full replay>", full.limit_events[0]))
                self.interp = full
            except (gwl.GrammarError, gwl.ReplayError):
                self.unjudgeable = True
        lim = [p for p in self.pending if p[0] == "limit"]
        over = [p for p in self.pending if p[0] in ("oversize", "multi")]
        key = None
        if lim and op["op"] == "distribute" and out.exc is not None and isinstance(out.exc, (VolumeViolationException, KeyError)) \
                and all(p[1].startswith("R;") for p in lim):
            key = D5
        ctx.check(
            "replay_of_records_stays_within_labware_limits",
            not lim,
            lambda: det({"limit_events": [[p[1], [str(x) for x in p[2]]] for p in lim[:3]]}),
            key=key,
        )
        ctx.check("no_emitted_step_exceeds_max_volume", not over, lambda: det({"oversized": [list(map(str, p)) for p in over[:3]]}))
        f = op.get("_fault")
        if f:
            ctx.feature("fault", f"{op['op']}:{f[0]}")
            ctx.feature("fault_position", f"{op['op']}:k={min(f[1], 12)}")
        # oversized step with auto_split off must raise InvalidOperationError
        wl = eng.case["worklist"]
        if op["op"] in ("transfer", "aspirate", "dispense", "evo_aspirate", "evo_dispense") and f and f[0] == "oversize":
            if op["op"] != "transfer" or not wl.get("auto_split", True):
                ctx.count("oversize_expected_refusal:" + op["op"])
                ctx.check("oversized_step_is_refused", out.exc is not None, det)
                if out.exc is not None and not isinstance(out.exc, VolumeViolationException):
                    ctx.check("oversized_step_raises_invalid_operation_error", isinstance(out.exc, InvalidOperationError), det)
        if f and f[0] == "nan":
            ctx.count("nan_volume_entry:" + ("refused" if out.exc is not None else "returned"))
        if out.exc is not None:
            ctx.count("refused:" + op["op"] + ":" + type(out.exc).__name__)
            if f:
                ctx.count("refused_as_steered")
                if len(eng.world.wl) > 0 or f[1] >= 1:
                    self.nontrivial = True
                side = None
                for ev in out.events:
                    if ev.get("exc") is not None:
                        side = ev["kind"]
                if side:
                    ctx.count(f"refusal_side:{op['op']}:{side}")

    def finish(self, eng):
        try:
            eng.att.append_observers.remove(self.on_append)
        except ValueError:
            pass


def eng_is_k1(eng, rec):
    from ..progmon import k1_mechanism

    d = eng.descs.get(rec.f["src_label"])
    if d is None or d["kind"] != "trough" or eng.device != "fluent" or d["virtual_rows"] <= 1:
        return False
    vr = d["virtual_rows"]
    c = (rec.f["src_start"] - 1) // vr
    return k1_mechanism("fluent", d, c, rec)


def n_cases(tier):
    return 3000 if tier == "quick" else 150000


KINDS = ["transfer", "transfer", "transfer", "aspirate", "dispense", "distribute", "distribute", "evo_aspirate", "evo_dispense"]


def gen_case(rng, tier, index):
    vclass = rng.choice(["int", "quarter", "cent", "dirty"])
    wl = gen.gen_worklist_cfg(rng)
    wl["max_volume"] = rng.choice([950, 950, 200, 100, 1000, 333.3])
    cls = rng.choice(["limit", "limit", "limit", "oversize", "invalid"]) if rng.random() > 0.05 else "nan"
    if cls == "oversize":
        wl["auto_split"] = rng.random() < 0.3
    elif rng.random() < 0.15:
        wl["auto_split"] = False
    wt = gen.gen_worktable(rng, vclass=vclass if vclass != "dirty" else "cent", limits=rng.choice(["tight", "tight", "tight", "loose", "loose", "reservoir", "reservoir"]),
                           need_trough=rng.random() < 0.7, small=True)
    fault = {"class": cls, "kind": rng.choice(KINDS if cls == "limit" else ["transfer", "transfer", "aspirate", "dispense", "distribute", "evo_aspirate"])}
    if cls == "invalid":
        fault["invalid"] = rng.choice(["well", "well", "tip", "separator"])
    if cls == "oversize":
        fault["kind"] = rng.choice(["transfer", "transfer", "aspirate", "dispense", "evo_aspirate", "evo_dispense"])
    return {"worklist": wl, "worktable": wt, "n_ops": (1 if cls != "nan" else 3) + rng.choice([0, 1, 2, 3, 5, 8]), "opseed": rng.getrandbits(48),
            "profile": "fault", "vclass": vclass, "fault": fault, "with_file": rng.random() < 0.34}


def run_case(ctx, case):
    judge = AppendJudge(ctx)
    path = None
    if case.get("with_file"):
        d = env.workdir("C03") / str(os.getpid())
        d.mkdir(parents=True, exist_ok=True)
        path = d / "wl.gwl"
        if path.exists():
            path.unlink()
    eng = FaultEngine(ctx, case, [judge])
    if path is not None:
        wl = eng.world.wl
        wl._rvmon_path = path
        import robotools

        cls = type(wl)
        wl2 = cls(path, max_volume=wl.max_volume, auto_split=wl.auto_split, diti_mode=wl.diti_mode)
        eng.world.wl = wl2
        wl2.__enter__()
    eng.run()
    if path is not None:
        wl2 = eng.world.wl
        records = list(wl2)
        last_exc = None
        wl2.__exit__(None, None, None)
        want = "\r\n".join(records).encode("latin-1", "replace")
        got = path.read_bytes() if path.exists() else None
        ctx.check(
            "file_written_on_exit_equals_records_at_that_moment",
            got == want,
            lambda: {"records": records[-6:], "file_tail": (got or b"")[-300:].decode("latin-1"), "history_tail": eng.tail(3)},
        )
        ctx.count("files_read_back")
        # the file is what the robot executes: judge it with a fresh interpreter as well
        if got is not None and got and not judge.unjudgeable:
            fresh = gwl.Interp(case["worktable"], eng.device, check_limits=True)
            try:
                for line in got.decode("latin-1").split("\r\n"):
                    rec = gwl.parse(line)
                    if rec.type == "R" and eng_is_k1(eng, rec):
                        c = (rec.f["src_start"] - 1) // fresh.racks[rec.f["src_label"]].vrows
                        rec.f["src_start"] = rec.f["src_end"] = 1 + c
                    fresh.apply(rec)
                ctx.check("replay_of_written_file_stays_within_limits", not fresh.limit_events,
                          lambda: {"limit_events": [str(e) for e in fresh.limit_events[:3]], "history_tail": eng.tail(3)})
            except (gwl.GrammarError, gwl.ReplayError):
                ctx.count("written_file_not_replayable")
        try:
            path.unlink()
        except OSError:
            pass
    c2 = {k: case[k] for k in ("worklist", "worktable", "n_ops", "opseed", "fault", "with_file")}
    ctx.case(c2, judge.nontrivial, sample=dict(c2, executed_operations_tail=eng.tail(3)))
    if judge.unjudgeable:
        ctx.count("cases_with_unjudgeable_records")


def extra(ctx):
    import shutil

    shutil.rmtree(env.workdir("C03") / str(os.getpid()), ignore_errors=True)


def gates(stats, tier):
    c, f = stats["counters"], stats["features"]
    r = []
    for k in ("rule:replay_of_records_stays_within_labware_limits", "rule:no_emitted_step_exceeds_max_volume",
              "rule:oversized_step_is_refused", "rule:oversized_step_raises_invalid_operation_error",
              "rule:file_written_on_exit_equals_records_at_that_moment", "rule:replay_of_written_file_stays_within_limits",
              "appends_judged", "step_volume_checked", "multi_dispense_plan_checked", "refused_as_steered"):
        if not c.get(k):
            r.append(f"never evaluated/observed: {k}")
    sides = {k.split(":", 1)[1] for k in c if k.startswith("refusal_side:")}
    for need in ("transfer:remove", "transfer:add", "distribute:remove", "distribute:add", "aspirate:remove", "dispense:add",
                 "evo_aspirate:remove", "evo_dispense:add"):
        if need not in sides:
            r.append(f"refusal never observed at {need}")
    kinds = {str(x).split(":")[1] for x in f.get("fault", ())}
    for need in ("oversize", "tip", "separator"):
        if need not in kinds:
            r.append(f"fault class never generated: {need}")
    if not any(str(k).startswith("unknown_well") for k in kinds):
        r.append("fault class never generated: unknown well id")
    if c.get("cases_with_unjudgeable_records", 0) > 0.05 * max(1, stats["evaluations"]):
        r.append("more than 5% of the cases contained records the interpreter could not judge")
    if c.get("refused_as_steered", 0) < 0.5 * stats["evaluations"]:
        r.append("fewer than half of the steered refusals happened")
    if stats["distinct_nontrivial"] < (50 if tier == "quick" else 1000):
        r.append("too few distinct non-trivial cases")
    return r
