"""C10 - tip selections encode to the Tecan tip bit mask.

Oracle (independent of robotools' Tip values and int_to_tip): tip number n (an int 1..8 or the
member named ``T<n>``) owns bit n-1; a collection is the OR of its members; ``Tip.Any`` alone is the
empty field; everything else must be refused without a record.  The emitted records are read back
with the independent grammar of ``rvmon.gwl``.
"""
from __future__ import annotations

import itertools
import zlib
from fractions import Fraction

from .. import gwl
from ..core import dec
from ..world import well_id

ID = "C10"
TITLE = "Tip selections encode to the Tecan tip bit mask"
LEVEL = "exploration"
TECHNIQUE = (
    "runtime monitoring: bit-mask oracle on the tip field of every emitted A/D record and on mask + "
    "volume slots of every EVO script command, exhaustive over tip sequences and subsets"
)
ATTACH = ()
RULE = (
    "cases = one call of a record-emitting entry point (aspirate_well, dispense_well, aspirate, dispense, "
    "transfer on Base/Evo/Fluent worklists with tip=; evo_aspirate, evo_dispense, evo_wash with tips=) with a "
    "tip selection: exhaustively all sequences of length 1..3 (thorough: 1..4) over the 16 symbols "
    "1..8/Tip.T1..T8, all 255 subsets as sorted list, reversed list, set, tuple of members and with one "
    "duplicate, plus sampled longer collections, Tip.Any alone, and invalid members (0, 9, -1, 1.5, '1', None, "
    "Tip.Any inside a collection); a case is non-trivial when the selection is a collection with >= 2 members "
    "(which includes every duplicate); distinct = distinct (entry point, device, selection, volumes) hashes"
)
ASSUMPTIONS = [
    "the record grammar of rvmon.gwl.parse is the reference reading of the tip-mask field and of the script "
    "command arguments",
    "bool, numpy integers, integer-valued floats and the empty collection are not generated (the statement does "
    "not decide them)",
    "for EVO script commands whose tips are not distinct and ascending only mask and slot occupancy are judged; "
    "which volume lands in which slot is C13's business",
    "a refusal of repeated tips by an EVO script command is counted, not judged (the statement only fixes the "
    "mask of an emitted command)",
]
EXHAUSTIVE = (
    "all 4368 sequences of length 1..3 over {1..8, Tip.T1..T8} (thorough: + 65536 of length 4) and all 255 "
    "non-empty subsets in 5 representations through aspirate_well, each also through a rotating second entry point; "
    "all 255 subsets in ascending order with per-tip volumes through evo_aspirate, evo_dispense, evo_wash"
)

AD_EPS = [
    ("aspirate_well", "base"), ("dispense_well", "base"), ("aspirate", "evo"), ("dispense", "fluent"),
    ("transfer", "evo"), ("aspirate_well", "evo"), ("dispense_well", "fluent"), ("aspirate", "fluent"),
    ("dispense", "evo"), ("transfer", "fluent"), ("aspirate_well", "fluent"), ("dispense_well", "evo"),
]
EVO_EPS = ["evo_aspirate", "evo_dispense", "evo_wash"]
ALL_EPS = AD_EPS + [(e, "evo") for e in EVO_EPS]
# the 16 symbols in encoded (JSON) form
SYMS = list(range(1, 9)) + [{"__tip__": f"T{n}"} for n in range(1, 9)]
ANY = {"__tip__": "Any"}
INVALID = [0, 9, -1, 1.5, "1", None]
INVALID_MORE = [10, 16, 128, 255, -8, 0.5, 8.5, 2.5, "T1", "", "12"]
SEQ_COUNT = {"quick": 16 + 256 + 4096, "thorough": 16 + 256 + 4096 + 65536}
POSITION = (30, 2)


# ---------------------------------------------------------------------------------------------
# oracle
# ---------------------------------------------------------------------------------------------
def _num(m):
    """Tip number 1..8 of a valid member, 'any' for Tip.Any, None for everything else."""
    from robotools import Tip

    if isinstance(m, Tip):
        if m.name == "Any":
            return "any"
        if len(m.name) == 2 and m.name[0] == "T" and m.name[1] in "12345678":
            return int(m.name[1])
        return None
    if isinstance(m, bool):
        return None
    if isinstance(m, int) and 1 <= m <= 8:
        return m
    return None


def _why(m):
    from robotools import Tip

    if isinstance(m, Tip):
        return "any_inside"
    if m is None:
        return "none"
    if isinstance(m, str):
        return "str"
    if isinstance(m, float):
        return "float"
    if isinstance(m, int):
        return {0: "zero", 9: "nine"}.get(m, "negative" if m < 0 else "int_above_9")
    return "other"


def _is_coll(t):
    return isinstance(t, (list, tuple, set, frozenset))


def _expect(tip):
    """('any', None, None) | ('ok', mask, nums) | ('invalid', class, None)."""
    if _is_coll(tip):
        nums = []
        for m in tip:
            n = _num(m)
            if n is None or n == "any":
                return "invalid", "in_collection:" + _why(m), None
            nums.append(n)
        mask = 0
        for n in nums:
            mask |= 1 << (n - 1)
        return "ok", mask, nums
    n = _num(tip)
    if n == "any":
        return "any", None, None
    if n is None:
        return "invalid", "bare:" + _why(tip), None
    return "ok", 1 << (n - 1), [n]


# ---------------------------------------------------------------------------------------------
# generated part
# ---------------------------------------------------------------------------------------------
def n_cases(tier):
    return 9000 if tier == "quick" else 500000


def _vol(rng):
    return rng.randint(4, 1600) / 4.0


def _rand_members(rng, k):
    return [rng.choice(SYMS) for _ in range(k)]


def _container(rng, members, allow_set=True):
    form = rng.choice(["list", "list", "tuple", "set"] if allow_set else ["list", "list", "tuple"])
    if form == "tuple":
        return {"__tuple__": list(members)}
    if form == "set":
        return {"__set__": list(members)}
    return list(members)


def gen_case(rng, tier, index):
    kind = rng.choice(
        ["coll", "coll", "coll", "single", "any", "bad_bare", "bad_inside", "bad_inside",
         "evo_asc", "evo_asc", "evo_perm", "evo_perm", "evo_dup", "evo_bad", "evo_any"]
    )
    if kind.startswith("evo"):
        ep = rng.choice(EVO_EPS)
        if kind in ("evo_asc", "evo_perm"):
            k = rng.randint(1, 8)
            nums = sorted(rng.sample(range(1, 9), k))
            if kind == "evo_perm":
                rng.shuffle(nums)
            members = [n if rng.random() < 0.5 else {"__tip__": f"T{n}"} for n in nums]
        elif kind == "evo_dup":
            k = rng.randint(2, 8)
            members = _rand_members(rng, k - 1)
            members.insert(rng.randint(0, k - 1), rng.choice(members))
        else:
            k = rng.randint(1, 8)
            members = _rand_members(rng, k - 1)
            bad = ANY if kind == "evo_any" else rng.choice(INVALID + INVALID + INVALID_MORE)
            members.insert(rng.randint(0, k - 1), bad)
        case = {"ep": ep, "dev": "evo", "tip": _container(rng, members, allow_set=False), "kind": kind}
        if ep == "evo_wash" and rng.random() < 0.25:
            case["oneshot"] = rng.choice(["iter", "gen"])  # `tips` of evo_wash may be any iterable
        if ep != "evo_wash":
            case["col"] = rng.randrange(12)
            if rng.random() < 0.75:
                vols = []
                while len(vols) < len(members):
                    v = _vol(rng)
                    if v not in vols:
                        vols.append(v)
                if rng.random() < 0.25:
                    vols[rng.randrange(len(vols))] = rng.choice([0.0, 0, 0.004])  # a selected tip that pipettes nothing
                case["vol"] = vols
            else:
                case["vol"] = _vol(rng) if rng.random() > 0.08 else 0.0
        return case
    ep, dev = rng.choice(AD_EPS)
    if kind == "coll":
        k = rng.choice([2, 2, 3, 4, 5, 6, 8, 9, 12, 16, rng.randint(2, 20)])
        tip = _container(rng, _rand_members(rng, k))
    elif kind == "single":
        tip = rng.choice(SYMS)
    elif kind == "any":
        tip = ANY
    elif kind == "bad_bare":
        tip = rng.choice(INVALID + INVALID + INVALID_MORE)
    else:
        k = rng.randint(1, 6)
        members = _rand_members(rng, k - 1)
        members.insert(rng.randint(0, k - 1), rng.choice(INVALID + INVALID + INVALID_MORE + [ANY, ANY, ANY]))
        tip = _container(rng, members)
    case = {"ep": ep, "dev": dev, "tip": tip, "n": rng.choice([1, 1, 2, 3]), "vol": _vol(rng), "kind": kind}
    if isinstance(tip, list) and rng.random() < 0.15:
        # the same members in another re-iterable container: the values of a dict, a deque, a plain user class with __iter__
        case["wrap"] = rng.choice(["dict_values", "deque", "user_iterable", "dict_keys"])
    if rng.random() < 0.3:
        # the worklist is not fresh: an earlier record on the same object carries another explicit selection
        case["pre"] = {"ep": rng.choice(["aspirate_well", "aspirate_well", "dispense_well"]),
                       "tip": rng.choice(SYMS) if rng.random() < 0.6 else _container(rng, _rand_members(rng, rng.randint(1, 4)), allow_set=False)}
    if kind == "any" and rng.random() < 0.5:
        case["omit_tip"] = True  # Tip.Any is the default: the argument is left out altogether
    if isinstance(tip, (list, dict)) and ("__tuple__" in tip if isinstance(tip, dict) else True) and rng.random() < 0.2:
        # `tip` is documented as an Iterable: a generator / iterator object is legal (a transfer has to read it once
        # and use the selection for every record)
        case["oneshot"] = rng.choice(["iter", "gen"])
        if ep != "transfer":
            case["n"] = 1
        if kind == "coll" and rng.random() < 0.3:
            # a long stream that names the same few tips over and over and another one only late
            few = _rand_members(rng, rng.randint(1, 3))
            k = rng.randint(17, 40)
            members = [rng.choice(few) for _ in range(k)]
            for _ in range(rng.randint(1, 3)):
                members[rng.randint(16, k - 1)] = rng.choice(SYMS)
            case["tip"] = {"__tuple__": members} if isinstance(tip, dict) else members
    return case


# ---------------------------------------------------------------------------------------------
# execution + judgement
# ---------------------------------------------------------------------------------------------
class _UserIterable:
    """A minimal user container: nothing but __iter__ (re-iterable)."""

    def __init__(self, items):
        self._items = list(items)

    def __iter__(self):
        return iter(self._items)


def _wrap(members, how):
    import collections

    if how == "dict_values":
        return {f"sample {i}": m for i, m in enumerate(members)}.values()
    if how == "deque":
        return collections.deque(members)
    if how == "user_iterable":
        return _UserIterable(members)
    if how == "dict_keys":
        try:
            d = {m: None for m in members}
        except TypeError:
            return members
        return d.keys() if len(d) == len(members) else members
    return members


def _worklist(dev):
    import robotools

    return {"base": robotools.BaseWorklist, "evo": robotools.EvoWorklist, "fluent": robotools.FluentWorklist}[dev]()


def _small(name, filled):
    import robotools

    return robotools.Labware(name, 2, 3, min_volume=0, max_volume=1e9, initial_volumes=1e6 if filled else 0)


_WELLS = ["A01", "B02", "B01", "A03"]


def _raw_mask(record):
    parts = record.split(";")
    return parts[9] if len(parts) == 11 else None


def run_case(ctx, case):
    ep = case["ep"]
    if ep in EVO_EPS:
        return _run_evo(ctx, case)
    return _run_ad(ctx, case)


def _run_ad(ctx, case):
    ep, dev = case["ep"], case.get("dev", "base")
    tip = dec(case["tip"])
    n = int(case.get("n", 1))
    vol = float(case.get("vol", 10.0))
    kind, mask, nums = _expect(tip)
    coll = _is_coll(tip)
    if case.get("oneshot") and coll:
        members_ = list(tip)
        ctx.count("tip_given_as_one_shot_iterable")
        coll_len = len(members_)
        tip_arg = iter(members_) if case["oneshot"] == "iter" else (m for m in members_)
    else:
        tip_arg = tip
    if case.get("wrap") and isinstance(tip, list):
        tip_arg = _wrap(tip, case["wrap"])
        if tip_arg is not tip:
            ctx.count("tip_collection_in_container:" + case["wrap"])
    ctx.case(case, coll and len(tip) >= 2)
    ctx.count(f"ep:{ep}:{dev}")
    ctx.feature("selection_form", type(tip).__name__ if coll else "bare")
    if coll:
        ctx.feature("collection_length", len(tip))
    wl = _worklist(dev)
    n_pre = 0
    if case.get("pre"):
        try:
            getattr(wl, case["pre"]["ep"])("q", 1, 5.0, tip=dec(case["pre"]["tip"]))
            ctx.count("worklist_with_earlier_selection")
        except Exception:
            ctx.count("preamble_refused")
        n_pre = len(wl)
    if isinstance(tip, list) and tip_arg is tip and not case.get("omit_tip") and zlib.crc32(repr((ep, case["tip"])).encode()) % 4 == 0:
        # the caller keeps ONE list object for its selection: it was used a moment ago with other members (same or
        # another worklist) and has been edited in place since
        held = [2] if (kind != "invalid" and mask == 1) else [1]
        other_wl = wl if zlib.crc32(repr(case["tip"]).encode()) % 8 < 4 else _worklist(dev)
        try:
            other_wl.aspirate_well("q", 1, 5.0, tip=held)
            ctx.count("selection_list_object_reused_after_editing_in_place")
        except Exception:
            ctx.count("preamble_refused")
        held.clear()
        held.extend(tip)
        tip_arg = held
        n_pre = len(wl)
    tkw = {} if case.get("omit_tip") else {"tip": tip_arg}
    if case.get("omit_tip"):
        ctx.count("tip_argument_omitted")
    exc = None
    try:
        if ep == "aspirate_well":
            wl.aspirate_well("p", 3, vol, **tkw)
            want = ["A"]
        elif ep == "dispense_well":
            wl.dispense_well("p", 3, vol, **tkw)
            want = ["D"]
        elif ep == "aspirate":
            wl.aspirate(_small("p", True), _WELLS[0] if n == 1 else _WELLS[:n], vol, **tkw)
            want = ["A"] * n
        elif ep == "dispense":
            wl.dispense(_small("p", False), _WELLS[0] if n == 1 else _WELLS[:n], vol, **tkw)
            want = ["D"] * n
        elif ep == "transfer":
            wl.transfer(_small("p", True), _WELLS[:n], _small("q", False), list(reversed(_WELLS))[:n], vol, **tkw)
            want = ["A", "D"] * n
        else:
            raise ValueError(f"unknown entry point {ep}")
    except Exception as e:  # observed
        exc = e
    records = list(wl)[n_pre:]
    det = lambda: {"entry_point": ep, "device": dev, "tip": case["tip"], "expected_kind": kind,
                   "expected_mask": mask, "records": records, "raised": repr(exc)}
    if kind == "invalid":
        ctx.count("invalid:" + mask)
        # mechanism: the empty string is an empty iterable -> accepted with the mask field "0"
        key = "C10.empty_string_accepted" if isinstance(tip, str) and tip == "" else None
        ctx.check("rejects_invalid_tip", exc is not None, det, key=key)
        if exc is not None:
            ctx.check("nothing_appended_on_reject", len(records) == 0, det)
        return
    if not ctx.check("no_exception_on_valid_tip", exc is None, det):
        return
    parsed, well_formed = [], True
    for r in records:
        try:
            parsed.append(gwl.parse(r))
        except gwl.GrammarError:
            parsed.append(None)
            if isinstance(r, str) and r[:2] in ("A;", "D;"):
                well_formed = False
    ad = [(r, p) for r, p in zip(records, parsed) if isinstance(r, str) and r[:2] in ("A;", "D;")]
    ctx.check("emits_one_record_per_step", [r[0] for r, _ in ad] == want, det)
    # the mask field: the parsed integer when the record is well-formed, the raw text otherwise
    obs = []
    for r, p in ad:
        raw = _raw_mask(r)
        if p is not None:
            obs.append(p.f["tip_mask"] if raw != "" else "")
        else:
            obs.append(raw)
    if kind == "any":
        ctx.count("tip_any_alone")
        ctx.check("tip_any_gives_empty_field", all(o == "" for o in obs), det)
    elif coll:
        if len(set(nums)) < len(nums):
            ctx.count("collection_with_duplicate")
        if len({type(m).__name__ for m in tip}) > 1:
            ctx.count("collection_mixing_int_and_member")
        ok = all(o == mask or o == str(mask) for o in obs)
        ctx.check("mask_is_or_of_members", ok, det)
        ctx.check("record_is_well_formed", well_formed or not ok, det)
    else:
        ctx.count("single_tip")
        ok = all(o == mask or o == str(mask) for o in obs)
        ctx.check("single_tip_mask_is_power_of_two", ok, det)
        ctx.check("record_is_well_formed", well_formed or not ok, det)
    if ep == "transfer":
        pairs_ok = len(obs) % 2 == 0 and all(obs[i] == obs[i + 1] for i in range(0, len(obs) - 1, 2))
        ctx.check("transfer_pair_same_mask", pairs_ok, det)


def _run_evo(ctx, case):
    import robotools

    ep = case["ep"]
    tips = dec(case["tip"])
    members = list(tips)
    k = len(members)
    nums = [_num(m) for m in members]
    has_any = "any" in nums
    invalid = [m for m, n_ in zip(members, nums) if n_ is None]
    valid = not has_any and not invalid
    distinct = valid and len(set(nums)) == k
    ascending = distinct and nums == sorted(nums)
    ctx.case(case, k >= 2)
    ctx.count(f"ep:{ep}:evo")
    ctx.feature("evo_tips_length", k)
    wl = _worklist("evo")
    vol = dec(case.get("vol"))
    exc = None
    try:
        if ep == "evo_wash":
            t_arg = tips
            if case.get("oneshot"):
                ctx.count("evo_wash_tips_as_one_shot_iterable")
                t_arg = iter(list(members)) if case["oneshot"] == "iter" else (m for m in list(members))
            wl.evo_wash(tips=t_arg, waste_location=(52, 2), cleaner_location=(52, 1))
        else:
            plate = robotools.Labware("p", 8, 12, min_volume=0, max_volume=1e9, initial_volumes=1e6)
            wells = [well_id(r, int(case.get("col", 0))) for r in range(k)]
            v = list(vol) if isinstance(vol, list) else vol
            if ep == "evo_aspirate":
                wl.evo_aspirate(plate, wells, POSITION, tips, v, "")
            else:
                wl.evo_dispense(plate, wells, POSITION, tips, v, "")
    except Exception as e:  # observed
        exc = e
    records = list(wl)
    exp_mask = 0
    if valid:
        for n_ in nums:
            exp_mask |= 1 << (n_ - 1)
    det = lambda: {"entry_point": ep, "tips": case["tip"], "volumes": case.get("vol"), "tip_numbers": nums,
                   "expected_mask": exp_mask if valid else None, "records": records, "raised": repr(exc)}
    if invalid:
        for m in invalid:
            ctx.count("invalid:evo:" + _why(m))
        ctx.check("evo_rejects_invalid_tip", exc is not None, det)
        if exc is not None:
            ctx.check("nothing_appended_on_reject", len(records) == 0, det)
        return
    if has_any:
        ctx.count("invalid:evo:any_inside")
        # mechanism D10: Tip.Any among the tips of an EVO script command and the call is accepted
        ctx.check("evo_rejects_tip_any", exc is not None, det, key="C10.evo_tip_any")
        if exc is not None:
            ctx.check("nothing_appended_on_reject", len(records) == 0, det)
        return
    if exc is not None:
        if case.get("oneshot"):
            ctx.count("one_shot_iterable_refused")  # a refusal is fine, a silently different command is not
        elif distinct:
            ctx.check("no_exception_on_valid_tip", False, det)
        else:
            ctx.count("evo_repeated_tips_refused")
        return
    if distinct:
        ctx.check("no_exception_on_valid_tip", True)
    ctx.count("evo_distinct_ascending" if ascending else ("evo_distinct_other_order" if distinct else "evo_repeated_tips"))
    name = {"evo_aspirate": "Aspirate", "evo_dispense": "Dispense", "evo_wash": "Wash"}[ep]
    rec = None
    if len(records) == 1:
        try:
            rec = gwl.parse(records[0])
        except gwl.GrammarError:
            rec = None
    ok = rec is not None and rec.type == "script" and rec.f["name"] == name
    if not ctx.check("evo_emits_one_well_formed_command", ok, det):
        return
    # mechanism D10: repeated tip in the list of an EVO script command, accepted, and the emitted mask is
    # the arithmetic sum of the members' bit values instead of their OR
    summed = sum(1 << (n_ - 1) for n_ in nums)
    ctx.check("evo_mask_is_or_of_distinct_tips", rec.f["mask"] == exp_mask, det,
              key="C10.evo_tip_sum" if not distinct and rec.f["mask"] == summed else None)
    if ep == "evo_wash":
        return
    slots = rec.f["slots"]
    occ = [s is not None for s in slots]
    want = [bool(exp_mask >> i & 1) for i in range(8)] + [False] * 4
    ctx.check("evo_slot_occupancy_matches_tips", occ == want, det)
    if ascending and occ == want:
        if isinstance(vol, list):
            ctx.count("evo_per_tip_volumes")
            good = all(abs(slots[n_ - 1] - Fraction(float(v_))) <= Fraction(1, 200) for n_, v_ in zip(nums, vol))  # two-decimal rounding
        else:
            ctx.count("evo_scalar_volume")
            good = all(abs(slots[n_ - 1] - Fraction(float(vol))) <= Fraction(1, 200) for n_ in nums)
        ctx.check("evo_slot_i_holds_volume_of_tip_i", good, det)


# ---------------------------------------------------------------------------------------------
# enumerated part
# ---------------------------------------------------------------------------------------------
def _go(ctx, case):
    ctx.current_case = case
    run_case(ctx, case)


def _second(i, members, tag):
    """The i-th rotating second entry point for a collection of encoded members."""
    ep, dev = ALL_EPS[i % len(ALL_EPS)]
    form = (i // len(ALL_EPS)) % 2
    tip = list(members) if form == 0 else {"__tuple__": list(members)}
    case = {"ep": ep, "dev": dev, "tip": tip, "x": tag}
    if ep in EVO_EPS:
        if len(members) > 8:
            return None
        if ep != "evo_wash":
            case["col"] = i % 12
            case["vol"] = [10.25 * (j + 1) for j in range(len(members))] if i % 3 else 12.5
    else:
        case["n"] = 1 + i % 2
        case["vol"] = 10.0 + (i % 7) * 0.25
    return case


def extra(ctx):
    maxlen = 3 if ctx.tier == "quick" else 4
    i = 0
    nseq = 0
    for L in range(1, maxlen + 1):
        for seq in itertools.product(range(16), repeat=L):
            i += 1
            if i % ctx.nshards != ctx.shard:
                continue
            members = [SYMS[j] for j in seq]
            _go(ctx, {"ep": "aspirate_well", "dev": "base", "tip": members, "x": "seq"})
            nseq += 1
            c2 = _second(i, members, "seq2")
            if c2 is not None:
                _go(ctx, c2)
    ctx.count("exhaustive_sequences", nseq)
    # bare symbols and Tip.Any through every A/D entry point
    if ctx.shard == 0:
        for ep, dev in AD_EPS:
            for s in SYMS + [ANY]:
                _go(ctx, {"ep": ep, "dev": dev, "tip": s, "n": 2, "x": "bare"})
            for bad in INVALID:
                _go(ctx, {"ep": ep, "dev": dev, "tip": bad, "n": 2, "x": "bad"})
                _go(ctx, {"ep": ep, "dev": dev, "tip": [3, bad, {"__tip__": "T5"}], "n": 2, "x": "bad"})
            _go(ctx, {"ep": ep, "dev": dev, "tip": [ANY], "x": "bad"})
            _go(ctx, {"ep": ep, "dev": dev, "tip": [1, ANY], "x": "bad"})
        for ep in EVO_EPS:
            for bad in INVALID + [ANY]:
                for members in ([bad], [2, bad, {"__tip__": "T7"}]):
                    _go(ctx, {"ep": ep, "dev": "evo", "tip": members, "col": 1, "vol": 11.5, "x": "bad"})
    nsub = nforms = 0
    for s in range(1, 256):
        if s % ctx.nshards != ctx.shard:
            continue
        ns = [n for n in range(1, 9) if s >> (n - 1) & 1]
        mem = [{"__tip__": f"T{n}"} for n in ns]
        d = ns[s % len(ns)]
        dup = list(ns) + [d if s % 2 else {"__tip__": f"T{d}"}]
        forms = [
            ("sorted", list(ns)),
            ("reversed", list(reversed(ns))),
            ("set", {"__set__": list(ns)}),
            ("members", {"__tuple__": mem}),
            ("duplicate", dup),
        ]
        for fi, (tag, tip) in enumerate(forms):
            _go(ctx, {"ep": "aspirate_well", "dev": "base", "tip": tip, "x": "subset:" + tag})
            nforms += 1
            flat = tip if isinstance(tip, list) else list(tip.values())[0]
            c2 = _second(s * 5 + fi, flat, "subset2:" + tag)
            if c2 is not None:
                if tag == "set" and c2["ep"] not in EVO_EPS:
                    c2["tip"] = {"__set__": list(flat)}
                _go(ctx, c2)
        nsub += 1
        # EVO script commands: ascending distinct tips with per-tip volumes (mask, occupancy, slot values)
        for ep in EVO_EPS:
            tip = list(ns) if s % 2 else mem
            c = {"ep": ep, "dev": "evo", "tip": tip, "x": "evo_subset"}
            if ep != "evo_wash":
                c["col"] = s % 12
                c["vol"] = [10.25 * n + 0.5 * j for j, n in enumerate(ns)]
            _go(ctx, c)
            # the same tips in reversed order: mask and occupancy only
            c = {"ep": ep, "dev": "evo", "tip": list(reversed(tip)), "x": "evo_subset_rev"}
            if ep != "evo_wash":
                c["col"] = s % 12
                c["vol"] = [10.25 * n + 0.5 * j for j, n in enumerate(ns)]
            _go(ctx, c)
    ctx.count("exhaustive_subsets", nsub)
    ctx.count("exhaustive_subset_forms", nforms)
    if ctx.shard == 0:
        ctx.count("exhaustive_complete")
    ctx.current_case = None


# ---------------------------------------------------------------------------------------------
# gates
# ---------------------------------------------------------------------------------------------
def gates(stats, tier):
    c = stats["counters"]
    r = []
    want = SEQ_COUNT[tier]
    if c.get("exhaustive_sequences", 0) != want:
        r.append(f"exhaustive sequences incomplete: {c.get('exhaustive_sequences', 0)} of {want}")
    if c.get("exhaustive_subsets", 0) != 255 or c.get("exhaustive_subset_forms", 0) != 255 * 5:
        r.append(
            f"exhaustive subsets incomplete: {c.get('exhaustive_subsets', 0)} of 255 "
            f"({c.get('exhaustive_subset_forms', 0)} of {255 * 5} representations)"
        )
    for rule in (
        "mask_is_or_of_members", "single_tip_mask_is_power_of_two", "tip_any_gives_empty_field",
        "rejects_invalid_tip", "nothing_appended_on_reject", "transfer_pair_same_mask", "emits_one_record_per_step",
        "evo_mask_is_or_of_distinct_tips", "evo_slot_occupancy_matches_tips", "evo_slot_i_holds_volume_of_tip_i",
        "evo_rejects_invalid_tip", "evo_rejects_tip_any",
    ):
        if not c.get("rule:" + rule):
            r.append(f"deciding rule never evaluated: {rule}")
    for ep, dev in ALL_EPS:
        if not c.get(f"ep:{ep}:{dev}"):
            r.append(f"entry point never called: {ep} ({dev})")
    for where in ("bare:", "in_collection:", "evo:"):
        for cls in ("zero", "nine", "negative", "float", "str", "none"):
            if not c.get(f"invalid:{where}{cls}"):
                r.append(f"invalid class never observed: {where}{cls}")
    for k in ("invalid:in_collection:any_inside", "invalid:evo:any_inside", "tip_any_alone", "single_tip",
              "collection_with_duplicate", "collection_mixing_int_and_member", "evo_distinct_ascending",
              "evo_distinct_other_order", "evo_per_tip_volumes", "evo_scalar_volume"):
        if not c.get(k):
            r.append(f"never observed: {k}")
    if not (c.get("evo_repeated_tips") or c.get("evo_repeated_tips_refused")):
        r.append("never observed: EVO script command with a repeated tip")
    forms = set(stats["features"].get("selection_form", ()))
    for f in ("list", "tuple", "set", "bare"):
        if f not in forms:
            r.append(f"selection form never observed: {f}")
    if stats["distinct_nontrivial"] < (50 if tier == "quick" else 1000):
        r.append("too few distinct non-trivial cases")
    return r
