"""C16 - EVO and Fluent worklists differ only in trough well numbers."""
from __future__ import annotations

import copy

import numpy as np

from .. import gen, gwl, hist
from ..attach import flat_f
from ..core import dec, enc
from ..world import World

ID = "C16"
TITLE = "EVO and Fluent worklists differ only in trough well numbers"
LEVEL = "exploration"
TECHNIQUE = (
    "runtime monitoring: differential lock-step monitor - the same online-generated history runs through an "
    "EvoWorklist and a FluentWorklist on independently built identical labware; state, verdicts and records are "
    "compared after every operation"
)
ATTACH = ("labware", "worklist")
RULE = (
    "cases = online-generated histories of 3..40 device-independent operations (aspirate, dispense, transfer with all "
    "wash schemes except the deprecated None / all partition modes / split volumes, distribute, comment, wash, flush, "
    "commit, decontaminate), including operations steered to violate volume limits or max_volume (auto_split on and "
    "off), executed on two identical labware sets; the BaseWorklist refusal is probed on a third fresh set; a case is "
    "non-trivial when it produced at least one record addressing a trough and one addressing a plate; "
    "distinct = distinct (worktable, seed) hashes"
)
ASSUMPTIONS = [
    "records are compared after blanking the position fields (A/D field 5; R source range, destination range and "
    "exclusions) only in records whose rack is a trough",
    "exception classes are compared only where the statement does: volume-violation and invalid-operation errors; "
    "for other rejections both devices merely have to reject",
]
HOOK_RULES = ("monitor_error",)


def blank(record, descs):
    """Blank trough positions of a record (own parser; unparseable records are compared verbatim)."""
    try:
        rec = gwl.parse(record)
    except gwl.GrammarError:
        return record
    parts = record.split(";")
    if rec.type in ("A", "D"):
        d = descs.get(rec.f["label"])
        if d is not None and d["kind"] == "trough":
            parts[4] = "*"
        return ";".join(parts)
    if rec.type == "R":
        sd, dd = descs.get(rec.f["src_label"]), descs.get(rec.f["dst_label"])
        if sd is not None and sd["kind"] == "trough":
            parts[4] = parts[5] = "*"
        if dd is not None and dd["kind"] == "trough":
            parts[9] = parts[10] = "*"
            parts = parts[:16]
        return ";".join(parts)
    return record


def state_of(world):
    out = {}
    for n, lw in world.lw.items():
        out[n] = (
            np.array(lw.volumes, copy=True),
            {k: np.array(v, copy=True) for k, v in lw.composition.items()},
            [(l, np.array(a, copy=True)) for l, a in lw.history],
        )
    return out


def same_state(a, b):
    for n in a:
        va, ca, ha = a[n]
        vb, cb, hb = b[n]
        if not np.array_equal(va, vb, equal_nan=True):
            return f"volumes of {n}"
        if list(ca) != list(cb) or any(not np.array_equal(ca[k], cb[k], equal_nan=True) for k in ca):
            return f"composition of {n}"
        if len(ha) != len(hb) or any(la != lb or not np.array_equal(xa, xb, equal_nan=True) for (la, xa), (lb, xb) in zip(ha, hb)):
            return f"history of {n}"
    return None


class Lockstep(hist.Monitor):
    def __init__(self, ctx, case):
        self.ctx = ctx
        self.case = case
        self.trough_rec = False
        self.plate_rec = False

    def start(self, eng):
        c2 = copy.deepcopy(self.case)
        self.other = World(c2, device="fluent")
        self.descs = eng.descs

    def after(self, eng, op, out):
        from robotools import InvalidOperationError, VolumeViolationException

        ctx = self.ctx
        out2 = self.other.exec(op)
        det = lambda extra=None: dict(
            {"op": enc(op), "evo_raised": repr(out.exc), "fluent_raised": repr(out2.exc),
             "evo_records": list(out.appended)[-6:], "fluent_records": list(out2.appended)[-6:], "history_tail": eng.tail(4)},
            **(extra or {}))
        # 1. same verdict
        ctx.check("both_devices_accept_or_both_reject", (out.exc is None) == (out2.exc is None), det)
        for cls, nm in ((VolumeViolationException, "volume_violation"), (InvalidOperationError, "invalid_operation")):
            if isinstance(out.exc, cls) or isinstance(out2.exc, cls):
                ctx.count("rejected_on_both:" + nm)
                ctx.check(
                    "same_" + nm + "_error_on_both_devices",
                    type(out.exc) is type(out2.exc),
                    det,
                )
        # 2. same labware state
        diff = same_state(state_of(eng.world), state_of(self.other))
        ctx.check("identical_volumes_compositions_histories", diff is None, lambda: det({"difference": diff}))
        # 3. same records up to trough positions
        a = [blank(r, self.descs) for r in out.appended]
        b = [blank(r, self.descs) for r in out2.appended]
        ctx.check("records_identical_except_trough_positions", a == b, det)
        if len(eng.world.wl) != len(self.other.wl):
            ctx.check("record_lists_have_equal_length", False, det)
        for r in out.appended:
            if r[:2] in ("A;", "D;", "R;"):
                lab = r.split(";")[1]
                d = self.descs.get(lab)
                if d is not None:
                    if d["kind"] == "trough":
                        self.trough_rec = True
                        if out2.appended and r not in out2.appended:
                            ctx.count("records_differing_in_trough_position")
                    else:
                        self.plate_rec = True
        # 4. the generic base type refuses device-specific operations instead of guessing
        k = op["op"]
        if k in ("aspirate", "dispense", "transfer", "distribute") and eng.rng.random() < 0.25:
            els = hist.elements(op)
            nonzero = any(abs(v) > 0 for _, _, v in els if v == v)
            if k == "transfer" or nonzero:
                base = World(copy.deepcopy(self.case), device="base")
                out3 = base.exec(op)
                ctx.count("base_worklist_probe:" + k)
                ctx.check(
                    "base_worklist_refuses_device_specific_operation",
                    out3.exc is not None,
                    lambda: {"op": enc(op), "base_records": list(out3.appended)},
                )
                ctx.check(
                    "base_worklist_emits_no_pipetting_record",
                    not any(r[:2] in ("A;", "D;", "R;") for r in base.wl),
                    lambda: {"op": enc(op), "base_records": list(base.wl), "raised": repr(out3.exc)},
                )
                if k == "transfer" or (out3.exc is not None and not isinstance(out3.exc, (VolumeViolationException, AssertionError, KeyError))):
                    from robotools import CompatibilityError

                    if isinstance(out3.exc, (TypeError, CompatibilityError)):
                        ctx.count("base_refusal_is_type_or_compatibility_error")


def n_cases(tier):
    return 700 if tier == "quick" else 50000


def gen_case(rng, tier, index):
    if rng.random() < 0.06:
        return {"same_name_pair": True, "max_volume": rng.choice([950, 200, 100]), "opseed": rng.getrandbits(32)}
    vclass = rng.choice(["int", "quarter", "cent", "dirty"])
    wl = gen.gen_worklist_cfg(rng, device="evo")
    wl["max_volume"] = rng.choice([950, 950, 200, 100, 333.3, 1000])
    if rng.random() < 0.15:
        wl["auto_split"] = False
    wt = gen.gen_worktable(rng, vclass=vclass if vclass != "dirty" else "cent", limits=rng.choice(["tight", "loose", "loose"]),
                           need_trough=rng.random() < 0.8, small=True)
    if rng.random() < 0.02:
        # a few transfers of several hundred partitions per pair (litres through 10 uL tips)
        wl["max_volume"] = rng.choice([10, 20, 37])
        wl["auto_split"] = True
        for d in wt:
            d["max_volume"] = 1e6
            d["initial"] = [[(3e5 if (x > 0 or rng.random() < 0.5) else 0.0) for x in row] for row in d["initial"]]
            if d.get("names") is not None:
                rows = 1 if d["kind"] == "trough" else d["rows"]
                d["names"] = {f"{r},{c}": f"{d['name']}@{r}.{c}" for r in range(rows) for c in range(d["columns"]) if d["initial"][r][c] > 0}
        gen.sync_twins(wt)
        return {"worklist": wl, "worktable": wt, "n_ops": rng.choice([2, 3]), "opseed": rng.getrandbits(48),
                "profile": "lockstep_deep", "vclass": "int", "deep": True}
    return {"worklist": wl, "worktable": wt, "n_ops": rng.choice([3, 5, 10, 20, 40]), "opseed": rng.getrandbits(48),
            "profile": "lockstep", "vclass": vclass}


class LockstepEngine(hist.Engine):
    """Adds malformed transfers (argument lists of incompatible lengths) to the lock-step workload."""

    def gen_op(self):
        op = super().gen_op()
        if op["op"] == "transfer" and self.rng.random() < 0.06:
            s, d, v = flat_f(dec(op["sw"])), flat_f(dec(op["dw"])), flat_f(dec(op["vol"]))
            n = max(len(s), len(d), len(v))
            if n >= 3:
                which = self.rng.choice(["sw", "dw", "vol"])
                full = {"sw": s * (n if len(s) == 1 else 1), "dw": d * (n if len(d) == 1 else 1), "vol": v * (n if len(v) == 1 else 1)}
                for key in ("sw", "dw", "vol"):
                    op[key] = enc(full[key])
                op[which] = enc(full[which][: self.rng.randint(2, n - 1)])
                op["_malformed"] = "lengths"
                self.ctx.count("malformed_transfer_lengths")
        return op


def _same_name_pair(ctx, case):
    """Two distinct labware objects with the same name, one transfer between them, on both devices."""
    import random

    import robotools

    res = {}
    for dev, cls in (("evo", robotools.EvoWorklist), ("fluent", robotools.FluentWorklist)):
        rng = random.Random(case["opseed"])
        wl = cls(max_volume=case["max_volume"])
        A = robotools.Labware("plate", 2, 3, min_volume=0, max_volume=1e5, initial_volumes=5e4)
        B = robotools.Labware("plate", 2, 3, min_volume=0, max_volume=1e5, initial_volumes=10.0)
        for lw in (A, B):
            for i in range(rng.randint(1, 3)):
                lw.add("A01", 1.0 + i, label=f"earlier {i}")
        n = rng.randint(1, 4)
        ids = ["A01", "B01", "A02", "B02"][:n]
        vols = [rng.choice([10.0, 25.5, case["max_volume"] * 2.5, 0.0]) for _ in ids]
        if not any(v > 0 for v in vols):
            vols[0] = 12.0
        exc = None
        try:
            wl.transfer(A, ids, B, ids, vols, label="pair", wash_scheme=rng.choice([1, 2, "flush", "reuse"]))
        except Exception as e:
            exc = e
        res[dev] = (type(exc).__name__ if exc else None, list(wl),
                    [(l, np.asarray(a).tolist()) for l, a in A.history], [(l, np.asarray(a).tolist()) for l, a in B.history],
                    A.volumes.tolist(), B.volumes.tolist())
    ctx.count("same_name_pair_transfers")
    ctx.case(case, True)
    det = lambda: {"evo": res["evo"], "fluent": res["fluent"]}
    ctx.check("both_devices_accept_or_both_reject", (res["evo"][0] is None) == (res["fluent"][0] is None), det)
    ctx.check("records_identical_except_trough_positions", res["evo"][1] == res["fluent"][1], det)
    ctx.check("identical_volumes_compositions_histories", res["evo"][2:] == res["fluent"][2:], det)


def run_case(ctx, case):
    if case.get("same_name_pair"):
        return _same_name_pair(ctx, case)
    mon = Lockstep(ctx, case)
    eng = LockstepEngine(ctx, case, [mon])
    eng.run()
    c2 = {k: case[k] for k in ("worklist", "worktable", "n_ops", "opseed")}
    ctx.case(c2, mon.trough_rec and mon.plate_rec, sample=dict(c2, executed_operations_tail=eng.tail(4)))


def gates(stats, tier):
    c = stats["counters"]
    r = []
    for k in ("rule:both_devices_accept_or_both_reject", "rule:identical_volumes_compositions_histories",
              "rule:records_identical_except_trough_positions", "rule:same_volume_violation_error_on_both_devices",
              "rule:same_invalid_operation_error_on_both_devices", "rule:base_worklist_refuses_device_specific_operation",
              "rule:base_worklist_emits_no_pipetting_record", "records_differing_in_trough_position",
              "base_worklist_probe:aspirate", "base_worklist_probe:dispense", "base_worklist_probe:transfer", "base_worklist_probe:distribute",
              "base_refusal_is_type_or_compatibility_error", "malformed_transfer_lengths",
              "accepted:transfer", "accepted:distribute", "accepted:aspirate", "accepted:dispense", "accepted:comment", "accepted:wash",
              "accepted:flush", "accepted:commit"):
        if not c.get(k):
            r.append(f"never evaluated/observed: {k}")
    if stats["distinct_nontrivial"] < (50 if tier == "quick" else 1000):
        r.append("too few distinct non-trivial cases")
    return r
