"""C04 - exact volume bookkeeping per real well, including trough aliasing."""
from __future__ import annotations

import math

import numpy as np

from .. import attach, gen, hist
from ..attach import fr, near, real_index
from ..core import enc

ID = "C04"
TITLE = "Exact volume bookkeeping per real well, including trough aliasing"
LEVEL = "exploration"
TECHNIQUE = (
    "runtime monitoring: exact rational ledger per real well fed from the arguments as written (own column-major "
    "flattening), compared after every operation; frame condition on unaddressed wells; hook-level ledger on every "
    "Labware.add/remove call"
)
ATTACH = ("labware", "worklist")
RULE = (
    "cases = online-generated histories of 10..300 calls (direct add/remove and aspirate, dispense, transfer, "
    "distribute, evo_aspirate, evo_dispense) over plates and troughs (1..16 virtual rows), with every argument shape "
    "(scalar id, list with repeats, 1-D/2-D arrays, scalar/list/2-D volumes, trough aliases), mostly steered to "
    "succeed, some rejected in between; a history is non-trivial when two accepted calls touch a common well or one "
    "call names a well twice / uses a 2-D argument; distinct = distinct (worktable, seed) hashes"
)
ASSUMPTIONS = [
    "after a rejected multi-well call both 'nothing applied' and 'the prefix before the offender applied' are "
    "accepted; the ledger is resynchronised on the addressed wells and unaddressed wells must be unchanged",
    "float-vs-exact comparison uses 1e-9 relative to the peak volume seen in the well (binary-exact volume classes "
    "agree to the last bit anyway)",
]
HOOK_RULES = ("ledger_exact", "unaddressed_unchanged", "rejected_call_prefix_or_nothing", "monitor_error")


class LedgerMonitor(hist.Monitor):
    def __init__(self, ctx):
        self.ctx = ctx
        self.nontrivial = False

    def start(self, eng):
        self.ledger = {}
        self.peak = {}
        self.touched = {}
        for name, d in eng.descs.items():
            rows = 1 if d["kind"] == "trough" else d["rows"]
            self.ledger[name] = {(r, c): fr(d["initial"][r][c]) for r in range(rows) for c in range(d["columns"])}
            self.peak[name] = {k: abs(float(v)) for k, v in self.ledger[name].items()}
            self.touched[name] = set()
        # a caller may go on using the array it passed as initial_volumes: the labware must not alias it
        from ..world import CALLER_ARRAYS

        for name, lw in eng.world.lw.items():
            arr = CALLER_ARRAYS.get(id(lw))
            if arr is not None:
                arr += 7.25
                self.ctx.count("caller_array_modified_after_construction")
        self.compare(eng, None, "initial_state_as_described")

    def before(self, eng, op):
        self.pre = {n: eng.cur(n) for n in eng.descs}

    def compare(self, eng, op, rule):
        for name in eng.descs:
            obs = eng.cur(name)
            ok, bad = True, None
            for idx, e in self.ledger[name].items():
                if not near(obs[idx], e, scale=self.peak[name][idx]):
                    ok, bad = False, idx
                    break
            self.ctx.check(
                rule,
                ok,
                lambda: {"op": enc(op), "labware": name, "well": bad, "expected": str(self.ledger[name][bad]),
                         "expected_float": float(self.ledger[name][bad]), "observed": float(obs[bad]),
                         "history_tail": eng.tail()},
            )

    def after(self, eng, op, out):
        ctx = self.ctx
        addr = hist.addressed(eng, op)
        post = {n: eng.cur(n) for n in eng.descs}
        # frame condition (always, accepted or not): wells the call did not name are unchanged
        for name in eng.descs:
            mask = np.ones(post[name].shape, dtype=bool)
            for idx in addr.get(name, ()):
                mask[idx] = False
            ctx.check(
                "unaddressed_wells_unchanged",
                bool(np.array_equal(post[name][mask], self.pre[name][mask], equal_nan=True)),
                lambda: {"op": enc(op), "labware": name, "pre": self.pre[name].tolist(), "post": post[name].tolist(),
                         "raised": repr(out.exc), "history_tail": eng.tail()},
            )
        # an array obtained from .volumes belongs to the caller: writing into it must not change the labware
        for name, lw in eng.world.lw.items():
            mine = lw.volumes
            if isinstance(mine, np.ndarray) and mine.size and eng.rng.random() < 0.3:
                mine *= -1.0
                mine += 12345.0
                ctx.count("caller_wrote_into_returned_volumes_array")
        # ... and so does an array taken from .history (rescaled for a plot, say): the well volumes are not a
        # function of what the caller does to it.  The caller puts the old numbers back afterwards, because what
        # the history shows later is C11's business, not this property's.
        for name, lw in eng.world.lw.items():
            if eng.rng.random() < 0.12:
                try:
                    arr = lw.history[-1][1]
                except Exception:
                    continue
                if isinstance(arr, np.ndarray) and arr.size and arr.flags.writeable:
                    before = np.array(lw.volumes, dtype=float, copy=True)
                    saved = arr.copy()
                    arr *= 0.001
                    arr[arr < 0.01] = 0.0
                    now = np.array(lw.volumes, dtype=float, copy=True)
                    arr[...] = saved
                    ctx.count("caller_wrote_into_newest_history_array")
                    ctx.check("volumes_change_only_through_add_and_remove", bool(np.array_equal(now, before)),
                              lambda: {"labware": name, "volumes_before_the_caller_edited_the_history_array": before.tolist(),
                                       "volumes_afterwards": now.tolist(), "history_tail": eng.tail()})
        post = {n: eng.cur(n) for n in eng.descs}
        els = hist.elements(op)
        valid = all(math.isfinite(v) for _, _, v in els)
        if out.exc is None and valid:
            sh = op.get("_shapes", [])
            seen = set()
            for name, w, v in els:
                idx = real_index(eng.descs[name], w)
                if idx is None:
                    continue
                self.ledger[name][idx] += fr(v)
                self.peak[name][idx] = max(self.peak[name][idx], abs(float(self.ledger[name][idx])))
                if (name, idx) in seen or (name, idx) in self.touched[name]:
                    self.nontrivial = True
                seen.add((name, idx))
            for name, idx in seen:
                self.touched[name].add((name, idx))
            if any(str(s).startswith("2d") for s in sh):
                self.nontrivial = True
                ctx.count("accepted_with_2d_argument")
            if any(s == "scalar" for s in sh):
                ctx.count("accepted_with_scalar_argument")
            ws = [(n, real_index(eng.descs[n], w)) for n, w, _ in els]
            if len(set(ws)) < len(ws):
                ctx.count("accepted_with_repeated_well")
            for n, w, _ in els:
                if eng.descs[n]["kind"] == "trough" and w[0] != "A":
                    ctx.count("accepted_with_trough_alias")
                    break
            self.compare(eng, op, "volume_equals_initial_plus_added_minus_removed")
        else:
            # rejected (or invalid request that was accepted: not this property's business):
            # resynchronise the addressed wells with the observed state
            ctx.count("resynchronised_after_rejection")
            for name, idxs in addr.items():
                for idx in idxs:
                    self.ledger[name][idx] = fr(post[name][idx]) if math.isfinite(post[name][idx]) else self.ledger[name][idx]
                    self.peak[name][idx] = max(self.peak[name][idx], abs(float(self.ledger[name][idx])))


def n_cases(tier):
    return 600 if tier == "quick" else 30000


def gen_case(rng, tier, index):
    vclass = rng.choice(["int", "quarter", "quarter", "cent", "dirty"])
    wl = gen.gen_worklist_cfg(rng)
    wl["max_volume"] = rng.choice([950, 950, 200, 100, 1000]) if rng.random() > 0.1 else rng.choice([37, 10, 12.5, 2.5])
    wt = gen.gen_worktable(rng, vclass=vclass if vclass != "dirty" else "cent", limits=rng.choice(["tight", "loose", "loose"]),
                           need_trough=rng.random() < 0.6, small=rng.random() < 0.85)
    if rng.random() < 0.12:
        wl["auto_split"] = False
    n_ops = rng.choice([10, 20, 40, 60, 100, 300 if tier == "thorough" else 80])
    return {"worklist": wl, "worktable": wt, "n_ops": n_ops, "opseed": rng.getrandbits(48), "profile": "ledger", "vclass": vclass}


def run_case(ctx, case):
    mon = LedgerMonitor(ctx)
    eng = hist.Engine(ctx, case, [mon])
    eng.run()
    ctx.feature("vclass", case["vclass"])
    for d in case["worktable"]:
        if d["kind"] == "trough":
            ctx.feature("trough_virtual_rows", d["virtual_rows"])
    c2 = {k: case[k] for k in ("worklist", "worktable", "n_ops", "opseed")}
    ctx.case(c2, mon.nontrivial, sample=dict(c2, executed_operations_tail=eng.tail(4)))


def gates(stats, tier):
    c = stats["counters"]
    r = []
    for k in ("rule:volume_equals_initial_plus_added_minus_removed", "rule:unaddressed_wells_unchanged", "rule:hook.ledger_exact",
              "accepted_with_2d_argument", "accepted_with_scalar_argument", "accepted_with_repeated_well",
              "accepted_with_trough_alias", "resynchronised_after_rejection",
              "accepted:transfer", "accepted:distribute", "accepted:aspirate", "accepted:dispense", "accepted:add", "accepted:remove"):
        if not c.get(k):
            r.append(f"never evaluated/observed: {k}")
    if stats["distinct_nontrivial"] < (50 if tier == "quick" else 1000):
        r.append("too few distinct non-trivial cases")
    return r
