"""C02 - volume limits are enforced on every tracked operation."""
from __future__ import annotations

import math

import numpy as np

from .. import attach, gen, hist
from ..attach import flat_f
from ..core import dec, enc

ID = "C02"
TITLE = "Volume limits are enforced on every tracked operation"
LEVEL = "exploration"
TECHNIQUE = (
    "runtime monitoring: exact-arithmetic oracle at a hook on Labware.add/remove (every call, whoever makes it), "
    "icontract class invariant, operation-level prediction; histories aimed at the limits from the observed state"
)
ATTACH = ("labware", "worklist")
RULE = (
    "cases = online-generated histories of 5..200 calls (direct add/remove, aspirate, dispense, transfer, distribute, "
    "evo_aspirate, evo_dispense; continuing after rejections) on plates and troughs with zero/positive min_volume and "
    "tight/loose max_volume; per-element volumes aimed from the observed state: inside the limit, exactly at the "
    "limit, one ulp beyond, slightly beyond, huge, inf, nan, negative, zero, and repeated wells whose cumulated "
    "volume crosses the limit inside one call; a history is non-trivial when it contains at least one accepted and "
    "one rejected limit-relevant call; distinct = distinct (worktable, seed) hashes"
)
ASSUMPTIONS = [
    "exact limit decisions are demanded only where float arithmetic is exact for the operands; otherwise an "
    "either-band of 1e-9 relative around the limit accepts both outcomes",
    "direct writes to private attributes are outside the property",
    "partial application of a rejected multi-well call is legitimate (only the offending well is protected)",
]
HOOK_RULES = (
    "volumes_finite",
    "volume_nonnegative",
    "max_after_add",
    "min_after_remove",
    "accept_when_within_limits",
    "reject_when_beyond_limit",
    "limit_exception_type",
    "offender_unchanged",
    "inv_volume_bounds",
    "monitor_error",
)


class LimitMonitor(hist.Monitor):
    def __init__(self, ctx):
        self.ctx = ctx
        self.accepted = 0
        self.rejected = 0

    def _infeasible_transfer_step(self, eng, op, out, det):
        bad = _infeasible(eng, op, self.pre)
        if bad:
            self.ctx.count("transfer_with_infeasible_step")
            self.ctx.check("transfer_step_beyond_the_limits_in_any_order_is_rejected", out.exc is not None,
                           lambda: det({"infeasible_steps": bad}))

    def before(self, eng, op):
        self.pre = {n: eng.cur(n) for n in eng.descs}

    def after(self, eng, op, out):
        from robotools import VolumeOverflowError, VolumeUnderflowError, VolumeViolationException

        ctx = self.ctx
        post = {n: eng.cur(n) for n in eng.descs}
        det = lambda extra=None: dict(
            {"op": enc(op), "raised": repr(out.exc), "pre": {n: v.tolist() for n, v in self.pre.items()},
             "post": {n: v.tolist() for n, v in post.items()}, "history_tail": eng.tail()}, **(extra or {}))
        # 1. physical bounds on the observable state, exact
        for n, v in post.items():
            mx = eng.descs[n]["max_volume"]
            ok = bool(np.all(v >= 0) and np.all(v <= mx))
            ctx.check("state_within_0_and_max_after_every_operation", ok, det)
        k = op["op"]
        is_vv = isinstance(out.exc, VolumeViolationException)
        # 2. a volume violation raised inside the operation reaches the caller unchanged
        inner = [e for e in out.events if e.get("exc") is not None and isinstance(e["exc"], VolumeViolationException)]
        if inner:
            # the caller sees a volume violation of the same class (the very same object in the current code;
            # a re-raised copy would be just as good)
            ctx.check("violation_propagates_to_caller", type(out.exc) is type(inner[-1]["exc"]), det)
        # 3. operation-level prediction for single-labware operations (independent of the hook:
        #    it also covers paths that bypass Labware.add/remove)
        if k in ("add", "remove", "aspirate", "dispense", "evo_aspirate", "evo_dispense"):
            sign = 1 if k in ("add", "dispense", "evo_dispense") else -1
            lw = eng.world.lw[op["lw"]]
            status, kk, exp = attach._predict(lw, self.pre[op["lw"]], dec(op["wells"]), dec(op["vol"]), sign)
            ctx.feature("prediction", f"{k}:{status}")
            want = VolumeOverflowError if sign > 0 else VolumeUnderflowError
            if status == "limit":
                self.rejected += 1
                ctx.count("limit_reached_via:" + k)
                ctx.count("overflow_predicted" if sign > 0 else "underflow_predicted")
                ctx.check("operation_beyond_limit_is_rejected", out.exc is not None, lambda: det({"k": kk}))
                if out.exc is not None:
                    ctx.check("rejection_is_the_documented_error", isinstance(out.exc, want), lambda: det({"k": kk}))
                    idx = attach.real_index(lw, flat_f(dec(op["wells"]))[kk])
                    pv, ev = post[op["lw"]][idx], exp[idx]
                    ctx.check(
                        "offending_well_unchanged",
                        attach.near(pv, ev, scale=abs(self.pre[op["lw"]][idx])) or pv == self.pre[op["lw"]][idx],
                        lambda: det({"k": kk}),
                    )
            elif status == "ok":
                ctx.check("operation_within_limits_not_refused_for_volume", not is_vv, det)
                if out.exc is None:
                    self.accepted += 1
                    ctx.count("accepted_within_limits_via:" + k)
                    els = hist.elements(op)
                    for (_, w_, v_) in els:
                        idx = attach.real_index(lw, w_)
                        if idx is None or not (abs(v_) > 0):
                            continue
                        if sign > 0:
                            ctx.check("not_above_max_after_addition", post[op["lw"]][idx] <= lw.max_volume, det)
                        else:
                            ctx.check("not_below_min_after_removal", post[op["lw"]][idx] >= lw.min_volume, det)
            elif status == "either":
                ctx.count("either_band")
        else:
            if k == "transfer":
                self._infeasible_transfer_step(eng, op, out, det)
                vs = [float(x) for x in flat_f(dec(op["vol"]))]
                if (eng.case["worklist"].get("auto_split", True) and any(v == math.inf for v in vs)
                        and all(v == v and v >= 0 for v in vs)):
                    # an infinite volume cannot be taken from / put into any well: with automatic splitting nothing but
                    # the volume limits can refuse it
                    ctx.count("transfer_of_an_infinite_volume")
                    ctx.check("infinite_transfer_is_refused_as_a_volume_violation", is_vv, det)
            if is_vv:
                self.rejected += 1
                ctx.count("limit_reached_via:" + k)
                ctx.count("overflow_observed" if isinstance(out.exc, VolumeOverflowError) else "underflow_observed")
            elif out.exc is None:
                self.accepted += 1
                ctx.count("accepted_within_limits_via:" + k)
        f = op.get("_fault")
        if f:
            ctx.feature("fault_aim", f"{k}:{f[0]}")


def _infeasible(eng, op, pre):
    """Indices of unsplit transfer steps that cannot be executed in ANY order of the steps:
    the aspirate needs more than the source well can ever hold during the call, or the dispense
    more room than the destination well can ever have."""
    from ..attach import real_index

    s, d, v = flat_f(dec(op["sw"])), flat_f(dec(op["dw"])), [float(x) for x in flat_f(dec(op["vol"]))]
    n = max(len(s), len(d), len(v))
    s = s * n if len(s) == 1 else s
    d = d * n if len(d) == 1 else d
    v = v * n if len(v) == 1 else v
    if not (len(s) == len(d) == len(v)) or any(not math.isfinite(x) or x < 0 for x in v):
        return []
    sd, dd = eng.descs[op["src"]], eng.descs[op["dst"]]
    wl = eng.case["worklist"]
    out = []
    for i in range(n):
        if v[i] <= 0 or (wl.get("auto_split", True) and v[i] > wl["max_volume"]):
            continue  # split steps pass through the well in portions: not judged here
        si, di = real_index(sd, s[i]), real_index(dd, d[i])
        if si is None or di is None:
            return []
        gain = sum(v[j] for j in range(n) if j != i and op["src"] == op["dst"] and real_index(dd, d[j]) == si)
        have = float(pre[op["src"]][si]) + gain - sd["min_volume"]
        loss = sum(v[j] for j in range(n) if op["src"] == op["dst"] and real_index(sd, s[j]) == di)
        room = dd["max_volume"] - float(pre[op["dst"]][di]) + loss
        scale = max(abs(have), abs(room), v[i], 1.0)
        if v[i] > have + 1e-6 * scale or v[i] > room + 1e-6 * scale:
            out.append(i)
    return out


def n_cases(tier):
    return 900 if tier == "quick" else 25000


def gen_case(rng, tier, index):
    vclass = rng.choice(["int", "quarter", "cent", "dirty"])
    wl = gen.gen_worklist_cfg(rng)
    wl["max_volume"] = rng.choice([950, 950, 200, 1000, 5000])
    if rng.random() < 0.04:
        wl["max_volume"] = rng.choice([1e7, 10**7])  # a step limit above what one record can carry (7158278 uL)
    wt = gen.gen_worktable(rng, vclass=vclass if vclass != "dirty" else "cent", limits=rng.choice(["tight", "tight", "loose"]),
                           need_trough=rng.random() < 0.6, small=True)
    # some wells start below min_volume (legal) or exactly at a limit
    for d in wt:
        for row in d["initial"]:
            for c in range(len(row)):
                r = rng.random()
                if r < 0.08:
                    row[c] = d["min_volume"] * rng.choice([0.0, 0.5, 1.0])
                elif r < 0.14:
                    row[c] = d["max_volume"]
        if d.get("names") is not None:
            rows = 1 if d["kind"] == "trough" else d["rows"]
            d["names"] = {f"{r},{c}": f"{d['name']}@{r}.{c}" for r in range(rows) for c in range(d["columns"]) if d["initial"][r][c] > 0}
    gen.sync_twins(wt)
    for d in wt:
        # limits and / or initial volumes given in single precision (numpy.float32 scalars, a float32 array): numbers
        # like any other - the description holds their exact values, so every oracle keeps computing exactly
        if rng.random() < 0.15 and not d.get("shares_initial_array_with") and not d.get("array_is_shared"):
            mn, mx = float(np.float32(d["min_volume"])), float(np.float32(d["max_volume"]))
            if 0 <= mn < mx and math.isfinite(mx):
                how = rng.choice(["limits", "limits", "initial", "both"])
                if how in ("limits", "both"):
                    d["min_volume"], d["max_volume"] = mn, mx
                    d["limits_as"] = "float32"
                if how in ("initial", "both"):
                    d["initial_as"] = "float32"
                    d["initial"] = [[float(np.float32(v)) for v in row] for row in d["initial"]]
                top = d["max_volume"]
                if float(np.float32(top)) > top:
                    top = float(np.nextafter(np.float32(top), np.float32(0)))
                d["initial"] = [[(v if v <= d["max_volume"] else top) for v in row] for row in d["initial"]]
                if d.get("names") is not None:
                    rows = 1 if d["kind"] == "trough" else d["rows"]
                    d["names"] = {f"{r},{c}": f"{d['name']}@{r}.{c}" for r in range(rows) for c in range(d["columns"]) if d["initial"][r][c] > 0}
    n_ops = rng.choice([5, 10, 20, 40, 40, 80, 200 if tier == "thorough" else 60])
    return {"worklist": wl, "worktable": wt, "n_ops": n_ops, "opseed": rng.getrandbits(48), "profile": "limits", "vclass": vclass}


def run_case(ctx, case):
    mon = LimitMonitor(ctx)
    eng = hist.Engine(ctx, case, [mon])
    eng.run()
    c2 = {k: case[k] for k in ("worklist", "worktable", "n_ops", "opseed")}
    ctx.case(c2, mon.accepted > 0 and mon.rejected > 0, sample=dict(c2, executed_operations_tail=eng.tail(4)))
    ctx.count("hooked_calls", sum(1 for _ in ()))


def gates(stats, tier):
    c, f = stats["counters"], stats["features"]
    r = []
    for k in ("rule:hook.max_after_add", "rule:hook.min_after_remove", "rule:hook.reject_when_beyond_limit",
              "rule:hook.accept_when_within_limits", "rule:hook.inv_volume_bounds", "rule:operation_beyond_limit_is_rejected",
              "rule:violation_propagates_to_caller", "overflow_predicted", "underflow_predicted"):
        if not c.get(k):
            r.append(f"never evaluated/observed: {k}")
    paths = {k.split(":", 1)[1] for k in c if k.startswith("limit_reached_via:")}
    if len(paths & {"aspirate", "dispense", "transfer", "distribute", "evo_aspirate", "evo_dispense"}) < 3 or not ({"add", "remove"} <= paths):
        r.append(f"limit rejections observed only through {sorted(paths)}")
    aims = {str(x).split(":")[1] for x in f.get("fault_aim", ())}
    for a in ("exact", "ulp", "inf", "cumulative"):
        if a not in aims:
            r.append(f"aim class never generated: {a}")
    if stats["distinct_nontrivial"] < (50 if tier == "quick" else 1000):
        r.append("too few distinct non-trivial cases")
    return r
