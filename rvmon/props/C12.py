"""C12 - the EVO well-selection string is a faithful, decodable bitmap."""
from __future__ import annotations

import re

import numpy as np

from .. import gwl

ID = "C12"
TITLE = "The EVO well-selection string is a faithful, decodable bitmap"
LEVEL = "exploration"
TECHNIQUE = (
    "runtime monitoring: independent decoder (rvmon.gwl.decode_selection) as round-trip oracle on every produced "
    "selection string, exhaustive subsets for small geometries, collision table for injectivity"
)
ATTACH = ()
RULE = (
    "cases = (rows, columns, set of selected wells, entry point): the selection goes through evo_get_selection with a "
    "directly built 0/1 array (float, int, bool), through evo_make_selection_array with an id list or a 2-D id array, "
    "or through EvoWorklist.evo_aspirate/evo_dispense (wells of one column; the string is taken from the emitted "
    "B; record); exhaustive: all subsets of every geometry with <= 14 wells, all single-well, full and empty "
    "selections of every geometry 1..26 x 1..48; random densities elsewhere. A case is non-trivial when at least one "
    "and fewer than all wells are selected; distinct = distinct (geometry, selection, entry point) hashes"
)
ASSUMPTIONS = [
    "rvmon.gwl.decode_selection implements the EVOware rule of the statement (hex columns, hex rows, 7 wells per "
    "character, column-major, least significant bit first, offset 48) and is the reference",
    "selection arrays contain only 0/1 (or False/True); other values are outside the domain",
    "script commands are generated with strictly ascending wells of one column and ascending tips (other orders "
    "belong to C13)",
    "the case of the hexadecimal header digits is not judged (the statement does not fix it)",
]
EXHAUSTIVE = (
    "every geometry rows 1..26 x columns 1..48 with rows*columns <= 14: all subsets (array and id-list entry "
    "points); every geometry rows 1..26 x columns 1..48: all single-well selections, the full and the empty one"
)

ROWS = "ABCDEFGHIJKLMNOPQRSTUVWXYZ"
MAX_ROWS, MAX_COLS = 26, 48
SMALL = 14
VIAS = ("array", "array_int", "array_bool", "ids", "ids2d", "evo_aspirate", "evo_dispense", "array_F", "array_T")
HEX = set("0123456789abcdefABCDEF")


def wid(r, c):
    return "%s%02d" % (ROWS[r], c + 1)


def small_geometries():
    return [(r, c) for r in range(1, MAX_ROWS + 1) for c in range(1, MAX_COLS + 1) if r * c <= SMALL]


def all_geometries():
    return [(r, c) for r in range(1, MAX_ROWS + 1) for c in range(1, MAX_COLS + 1)]


def expected_exhaustive_strings():
    return sum(2 ** (r * c) for r, c in small_geometries())


def _assign(items, cost, nshards):
    """Deterministic longest-processing-time assignment of items to shards."""
    load = [0] * nshards
    out = [[] for _ in range(nshards)]
    for it in sorted(items, key=lambda x: (-cost(x), x)):
        k = min(range(nshards), key=lambda i: (load[i], i))
        out[k].append(it)
        load[k] += cost(it)
    return out


# ---------------------------------------------------------------------------------------------
# generation
# ---------------------------------------------------------------------------------------------
def n_cases(tier):
    return 20000 if tier == "quick" else 2000000


def gen_case(rng, tier, index):
    g = rng.random()
    if g < 0.25:
        rows, cols = rng.choice([(8, 12), (16, 24), (4, 6), (6, 8), (2, 3), (3, 2), (7, 1), (1, 7), (7, 2), (7, 7),
                                 (14, 1), (5, 3), (8, 1), (1, 8), (26, 48), (26, 1), (1, 48), (15, 17), (16, 16)])
    elif g < 0.5:
        rows, cols = rng.randint(1, 8), rng.randint(1, 12)
    else:
        rows, cols = rng.randint(1, MAX_ROWS), rng.randint(1, MAX_COLS)
    n = rows * cols
    via = rng.choice(["array", "array", "array_int", "array_bool", "ids", "ids", "ids2d", "evo_aspirate", "evo_dispense",
                      "array_F", "array_T"])
    if via.startswith("evo_"):
        c = rng.randrange(cols)
        k = rng.randint(1, min(8, rows))
        rws = sorted(rng.sample(range(rows), k))
        sel = [c * rows + r for r in rws]
        tips = sorted(rng.sample(range(1, 9), k))
        return {"rows": rows, "cols": cols, "sel": sel, "via": via, "tips": tips,
                "trough": rows <= 16 and rng.random() < 0.25, "after_refusal": rng.random() < 0.2}
    mode = rng.choice(["density", "density", "few", "most", "column", "row", "stripe"])
    if mode == "density":
        p = rng.choice([0.02, 0.1, 0.3, 0.5, 0.5, 0.7, 0.9, 0.98])
        sel = [w for w in range(n) if rng.random() < p]
    elif mode == "few":
        sel = sorted(rng.sample(range(n), min(n, rng.randint(1, 4))))
    elif mode == "most":
        out = set(rng.sample(range(n), min(n, rng.randint(1, 4))))
        sel = [w for w in range(n) if w not in out]
    elif mode == "column":
        c = rng.randrange(cols)
        sel = list(range(c * rows, (c + 1) * rows))
    elif mode == "row":
        r = rng.randrange(rows)
        sel = [c * rows + r for c in range(cols)]
    else:
        k = rng.choice([2, 3, 7, 8])
        o = rng.randrange(k)
        sel = [w for w in range(n) if w % k == o]
    case = {"rows": rows, "cols": cols, "sel": sel, "via": via}
    if rng.random() < 0.1:
        case["npdims"] = rng.choice(["int64", "int32", "uint8"])  # dimensions taken from a table / from `array.shape` arithmetic
    return case


# ---------------------------------------------------------------------------------------------
# execution
# ---------------------------------------------------------------------------------------------
def _array(rows, cols, sel, dtype):
    a = np.zeros((rows, cols), dtype=dtype)
    for w in sel:
        a[w % rows, w // rows] = 1
    return a


def _produce(ctx, case):
    """Run the real code. Returns (selection string or None, exception or None, extra detail)."""
    import robotools
    from robotools import evo_cmd

    rows, cols, sel, via = case["rows"], case["cols"], case["sel"], case["via"]
    info = {}
    if via not in VIAS:
        raise ValueError(via)
    if case.get("npdims"):
        # the same dimensions as numpy integers
        t = getattr(np, case["npdims"])
        rows_arg, cols_arg = t(rows), t(cols)
        ctx.count("dimensions_given_as_numpy_integers")
    else:
        rows_arg, cols_arg = rows, cols
    try:
        if via in ("array", "array_int", "array_bool", "array_F", "array_T"):
            dtype = {"array": float, "array_int": np.int64, "array_bool": bool, "array_F": float, "array_T": np.int64}[via]
            a = _array(rows, cols, sel, dtype)
            if via == "array_F":
                a = np.asfortranarray(a)  # same values, column-major memory
                ctx.count("selection_array_in_fortran_order")
            elif via == "array_T":
                t_ = np.zeros((cols, rows), dtype=dtype)
                t_[...] = a.T
                a = t_.T  # a transposed view (what `layout.T` of a (columns x rows) table gives)
                ctx.count("selection_array_in_fortran_order")
            return evo_cmd.evo_get_selection(rows_arg, cols_arg, a), None, info
        if via in ("ids", "ids2d"):
            ids = [wid(w % rows, w // rows) for w in sel]
            arg = list(ids)
            from ..world import scribble_on_helper_results

            if (len(ids) * 7 + rows * 3 + cols) % 8 == 0:
                scribble_on_helper_results(rows, cols)  # somebody else edited HIS copy of the helper tables
            if via == "ids" and len(ids) >= 1 and (len(ids) + rows + cols) % 4 == 0:
                # an id list may name a well more than once (concatenated lists): still the same subset
                arg = list(ids) + [ids[0], ids[-1]]
                ctx.count("id_list_with_repeated_wells")
            if via == "ids" and len(ids) >= 1 and (len(ids) * 3 + rows + cols) % 6 == 0 and hasattr(np.dtypes, "StringDType"):
                # the ids in a variable-width string array (NumPy 2: dtype "T", what np.strings functions return)
                arg = np.array(ids, dtype="T")
                ctx.count("id_array_with_variable_width_string_dtype")
            if via == "ids2d":
                k = len(ids)
                d = max((x for x in range(1, int(k ** 0.5) + 1) if k % x == 0), default=1) if k else 1
                arg = np.array(ids, dtype=str).reshape((d, k // d)) if k else np.zeros((0, 0), dtype=str)
                info["ids_shape"] = list(arg.shape)
            if (len(ids) * 5 + rows + cols * 3) % 3 == 0 and not isinstance(arg, np.ndarray):
                # the array handed out belongs to the caller: the same question was asked a moment ago and the
                # answer edited in place (a well added, the rest cleared) - the next answer must not notice
                try:
                    first = evo_cmd.evo_make_selection_array(rows_arg, cols_arg, list(arg))
                    if isinstance(first, np.ndarray) and first.size and first.flags.writeable:
                        first[...] = 0
                        first[rows - 1, cols - 1] = 1
                        ctx.count("returned_selection_array_edited_before_asking_again")
                except Exception:
                    pass
            arr = evo_cmd.evo_make_selection_array(rows_arg, cols_arg, arg)
            want = _array(rows, cols, sel, float)
            ok = isinstance(arr, np.ndarray) and arr.shape == (rows, cols) and bool(np.array_equal(arr, want))
            ctx.check(
                "selection_array_marks_exactly_the_named_wells",
                ok,
                lambda: {"rows": rows, "columns": cols, "ids": ids, "returned": np.asarray(arr).tolist()},
            )
            return evo_cmd.evo_get_selection(rows_arg, cols_arg, arr), None, info
        if via in ("evo_aspirate", "evo_dispense"):
            ids = [wid(w % rows, w // rows) for w in sel]
            if case.get("trough"):
                lw = robotools.Trough("T", rows, cols, min_volume=0, max_volume=1_000_000, initial_volumes=100_000)
            else:
                lw = robotools.Labware("T", rows, cols, min_volume=0, max_volume=1_000_000, initial_volumes=1000)
            wl = robotools.EvoWorklist(None, max_volume=950)
            vols = [float(10 + i) for i in range(len(ids))]
            if case.get("after_refusal"):
                # the command builders were used a moment ago: a command for another well, then this very command
                # with the row count as a float (8.0 rows: refused) - the corrected call follows
                cmd = getattr(evo_cmd, via)
                common = dict(labware_position=(10, 2), liquid_class="lc", n_columns=lw.n_columns)
                try:
                    cmd(n_rows=lw.n_rows, wells=[wid(0, cols - 1)], volume=[5.0], tips=[1], **common)
                    cmd(n_rows=float(lw.n_rows), wells=ids, volume=vols, tips=list(case["tips"]), **common)
                    ctx.count("command_with_float_row_count:accepted")
                except Exception:
                    ctx.count("command_with_float_row_count:refused")
            getattr(wl, via)(lw, ids, (10, 2), list(case["tips"]), vols, "lc")
            recs = [r for r in wl if isinstance(r, str) and r.startswith("B;") and len(r) > 2]
            info["records"] = list(wl)
            if len(recs) != 1:
                return None, RuntimeError(f"{len(recs)} script records emitted"), info
            rec = recs[0]
            # the selection is the 18th argument: the only quoted argument after the three integers
            # that follow the twelve volume slots; take it with the independent parser
            info["record"] = rec
            try:
                f = gwl.parse(rec)
            except gwl.GrammarError as e:
                # the strict parser refuses the record (it decodes the selection as well): fall back to a
                # plain extraction of the last quoted argument so that the specific rules can judge the string
                info["parser_error"] = repr(e)
                m = re.search(r',"([^"]*)",-?[0-9]+,-?[0-9]+\);$', rec)
                ctx.check("script_record_is_the_requested_command", m is not None, lambda: dict(info))
                if m is None:
                    return None, e, info
                ctx.count("script_record_refused_by_strict_parser")
                return m.group(1), None, info
            info["parsed_wells"] = sorted([list(x) for x in f.f["wells"]])
            ok = f.f["name"] == ("Aspirate" if via == "evo_aspirate" else "Dispense")
            ctx.check("script_record_is_the_requested_command", ok, lambda: dict(info))
            return f.f["selection"], None, info
    except Exception as e:
        return None, e, info


def _judge(ctx, case, s, exc, info):
    rows, cols, sel = case["rows"], case["cols"], case["sel"]
    n = rows * cols
    want = {(w % rows, w // rows) for w in sel}
    det = lambda extra=None: dict(
        {"rows": rows, "columns": cols, "selected": sorted(list(x) for x in want), "via": case["via"],
         "string": s, "codes": None if s is None else [ord(ch) for ch in s], "raised": repr(exc)},
        **dict(info, **(extra or {})),
    )
    if not ctx.check("valid_selection_is_encoded_without_error", exc is None and isinstance(s, str), det):
        return False
    ok = True
    need = 4 + -(-n // 7)
    ok &= ctx.check("length_is_4_plus_ceil_wells_over_7", len(s) == need, lambda: det({"required_length": need}))
    head_ok = len(s) >= 4 and all(ch in HEX for ch in s[:4]) and int(s[0:2], 16) == cols and int(s[2:4], 16) == rows
    ok &= ctx.check("header_is_hex_columns_then_rows", head_ok, det)
    payload = s[4:]
    in_range = not payload or ("0" <= min(payload) and max(payload) <= "\xaf")  # chr(48) .. chr(175)
    ok &= ctx.check("payload_characters_in_48_175", in_range, det)
    if len(s) == need and payload:
        used = n - 7 * (len(payload) - 1)  # wells encoded in the last character (1..7)
        ok &= ctx.check("padding_bits_are_zero", (ord(payload[-1]) - 48) >> used == 0 or ord(payload[-1]) < 48, det)
        if used < 7:
            ctx.count("strings_with_padding_bits")
    try:
        dc, dr, chosen = gwl.decode_selection(s)
        derr = None
    except gwl.GrammarError as e:
        dc = dr = chosen = None
        derr = e
    ok &= ctx.check("string_is_decodable", derr is None, lambda: det({"decoder_error": repr(derr)}))
    if derr is None:
        ok &= ctx.check("decodes_to_labware_dimensions", (dc, dr) == (cols, rows), lambda: det({"decoded": [dc, dr]}))
        ok &= ctx.check(
            "decodes_to_exactly_the_selected_wells",
            chosen == want,
            lambda: det({"decoded_wells": sorted(list(x) for x in chosen)}),
        )
    return bool(ok)


def run_case(ctx, case):
    rows, cols, sel, via = case["rows"], case["cols"], case["sel"], case["via"]
    n = rows * cols
    if sorted(set(sel)) != list(sel) or (sel and not (0 <= sel[0] and sel[-1] < n)):
        raise ValueError("malformed case: selection must be sorted distinct flat indices")
    if "pair" in case:
        # injectivity witness: two different selections of one geometry must give different strings
        other = dict(case, sel=case["pair"])
        other.pop("pair")
        one = dict(other, sel=sel)
        ctx.case(case, True)
        s1, e1, _ = _produce(ctx, one)
        s2, e2, _ = _produce(ctx, other)
        ctx.check(
            "distinct_selections_give_distinct_strings",
            e1 is None and e2 is None and (s1 != s2 or sel == case["pair"]),
            lambda: {"rows": rows, "columns": cols, "selection_1": sel, "selection_2": case["pair"],
                     "string_1": s1, "string_2": s2, "raised": [repr(e1), repr(e2)]},
        )
        return None
    nontrivial = 0 < len(sel) < n
    ctx.case(case, nontrivial)
    ctx.count("via:" + via)
    if nontrivial:
        ctx.count("nontrivial_wells_multiple_of_7" if n % 7 == 0 else "nontrivial_wells_not_multiple_of_7")
        if rows % 7 != 0 and cols > 1 and n > 7:
            ctx.count("nontrivial_group_straddles_columns")
    if cols > 15:
        ctx.count("columns_need_two_hex_digits")
    if rows > 15:
        ctx.count("rows_need_two_hex_digits")
    s, exc, info = _produce(ctx, case)
    _judge(ctx, case, s, exc, info)
    return s


# ---------------------------------------------------------------------------------------------
# exhaustive parts
# ---------------------------------------------------------------------------------------------
def extra(ctx):
    # E1: all subsets of every geometry with <= 14 wells, with a collision table per geometry
    mine = _assign(small_geometries(), lambda g: 2 ** (g[0] * g[1]), ctx.nshards)[ctx.shard]
    for rows, cols in mine:
        n = rows * cols
        for via, counter in (("array", "exhaustive_strings"), ("ids", "exhaustive_strings_via_ids")):
            seen = {}
            for mask in range(2 ** n):
                sel = [w for w in range(n) if mask >> w & 1]
                case = {"rows": rows, "cols": cols, "sel": sel, "via": via}
                ctx.current_case = case
                s = run_case(ctx, case)
                ctx.count(counter)
                if s is None:
                    continue
                prev = seen.get(s)
                if prev is not None:
                    pair = {"rows": rows, "cols": cols, "sel": prev, "pair": sel, "via": via}
                    ctx.current_case = pair
                    run_case(ctx, pair)
                else:
                    seen[s] = sel
            ctx.check(
                "exhaustive_geometry_has_2_pow_n_distinct_strings",
                len(seen) == 2 ** n,
                {"rows": rows, "columns": cols, "via": via, "distinct_strings": len(seen), "subsets": 2 ** n},
            )
        ctx.count("exhaustive_geometries")
    # E2: single-well, full and empty selections of every geometry
    mine = _assign(all_geometries(), lambda g: (g[0] * g[1]) ** 2, ctx.nshards)[ctx.shard]
    for rows, cols in mine:
        n = rows * cols
        seen = {}
        for w in range(n):
            case = {"rows": rows, "cols": cols, "sel": [w], "via": "array" if (w + rows) % 8 else "ids"}
            ctx.current_case = case
            s = run_case(ctx, case)
            ctx.count("single_well_selections")
            if s is not None:
                if s in seen:
                    pair = {"rows": rows, "cols": cols, "sel": [seen[s]], "pair": [w], "via": "array"}
                    ctx.current_case = pair
                    run_case(ctx, pair)
                seen.setdefault(s, w)
        for name, sel in (("full_selections", list(range(n))), ("empty_selections", [])):
            case = {"rows": rows, "cols": cols, "sel": sel, "via": "array"}
            ctx.current_case = case
            run_case(ctx, case)
            ctx.count(name)
        ctx.count("single_full_empty_geometries")
    if ctx.shard == 0:
        ctx.count("exhaustive_complete")
    ctx.current_case = None


def gates(stats, tier):
    c = stats["counters"]
    r = []
    want = expected_exhaustive_strings()
    for k in ("exhaustive_strings", "exhaustive_strings_via_ids"):
        if c.get(k, 0) != want:
            r.append(f"exhaustive part incomplete: {k} = {c.get(k, 0)}, expected {want}")
    if c.get("exhaustive_geometries", 0) != len(small_geometries()):
        r.append(f"exhaustive part incomplete: {c.get('exhaustive_geometries', 0)} of {len(small_geometries())} geometries")
    if c.get("rule:exhaustive_geometry_has_2_pow_n_distinct_strings", 0) != 2 * len(small_geometries()):
        r.append("collision table not evaluated for every small geometry")
    geos = all_geometries()
    singles = sum(a * b for a, b in geos)
    if c.get("single_well_selections", 0) != singles:
        r.append(f"single-well selections incomplete: {c.get('single_well_selections', 0)} of {singles}")
    for k in ("full_selections", "empty_selections", "single_full_empty_geometries"):
        if c.get(k, 0) != len(geos):
            r.append(f"{k} incomplete: {c.get(k, 0)} of {len(geos)}")
    for k in (
        "valid_selection_is_encoded_without_error", "length_is_4_plus_ceil_wells_over_7",
        "header_is_hex_columns_then_rows", "payload_characters_in_48_175", "padding_bits_are_zero",
        "string_is_decodable", "decodes_to_labware_dimensions", "decodes_to_exactly_the_selected_wells",
        "selection_array_marks_exactly_the_named_wells", "script_record_is_the_requested_command",
    ):
        if not c.get("rule:" + k):
            r.append(f"rule never evaluated: {k}")
    for v in VIAS:
        if not c.get("via:" + v):
            r.append(f"entry point never observed: {v}")
    for k in ("nontrivial_wells_multiple_of_7", "nontrivial_wells_not_multiple_of_7",
              "nontrivial_group_straddles_columns", "columns_need_two_hex_digits", "rows_need_two_hex_digits",
              "strings_with_padding_bits"):
        if not c.get(k):
            r.append(f"never observed: {k}")
    if stats["distinct_nontrivial"] < (50 if tier == "quick" else 1000):
        r.append("too few distinct non-trivial cases")
    return r
