"""C07 - transfers move each requested volume between the paired wells, one tip at a time."""
from __future__ import annotations

import copy
import random
from collections import defaultdict
from fractions import Fraction

import numpy as np

from .. import gen, gwl, progmon
from ..attach import ROWS, flat_f, fr, real_index
from ..core import dec, enc
from ..world import World

ID = "C07"
TITLE = "Transfers move each requested volume between the paired wells, one tip at a time"
LEVEL = "exploration"
TECHNIQUE = (
    "runtime monitoring: online automaton over the records appended by one transfer call, flow aggregation through "
    "an independent position decoder, column-group reconstruction, metamorphic re-execution (permuted triples, other "
    "partition_by) on fresh identical labware"
)
ATTACH = ("labware", "worklist")
RULE = (
    "cases = one generated transfer (1..12 triples with repeats, 2-D arguments, singleton broadcast of each argument, "
    "all wash schemes, DiTi mode on/off, partition_by auto/source/destination, keyword pass-through incl. tip "
    "collections, split and unsplit volumes, plates and troughs, both devices) steered to succeed in any order, plus "
    "malformed calls (incompatible lengths, negative volumes alone and mixed with positive ones); a case is "
    "non-trivial when it has >= 2 triples whose order on the partitioning side differs from the input order, or is a "
    "malformed call; distinct = distinct case hashes"
)
ASSUMPTIONS = [
    "flows are compared with 0.005 uL tolerance per emitted pair (two-decimal record volumes)",
    "the metamorphic run compares flows and final volumes (1e-9), not compositions: the mixture of a well that is both "
    "destination and source inside one call legitimately depends on the execution order",
    "NaN volumes are not generated (the statement speaks about negative volumes and incompatible lengths)",
]
HOOK_RULES = ("monitor_error",)
D2 = "C07.negative_volume_dropped"


def n_cases(tier):
    return 2500 if tier == "quick" else 200000


def gen_case(rng, tier, index):
    vclass = rng.choice(["int", "quarter", "cent", "dirty"])
    wl = gen.gen_worklist_cfg(rng)
    wt = gen.gen_worktable(rng, vclass=vclass if vclass != "dirty" else "cent", need_trough=rng.random() < 0.6, small=rng.random() < 0.85)
    st = gen.GenState(wt, wl)
    op = gen.gen_transfer(rng, st, vclass, allow_split=True, kw_level=2)
    case = {"worklist": wl, "worktable": wt, "op": op, "vclass": vclass, "perm_seed": rng.getrandbits(32),
            "other_pb": rng.choice(["auto", "source", "destination"])}
    r = rng.random()
    if r < 0.12:
        s, d, v = progmon.triples_of(op)
        n = len(s)
        kind = rng.choice(["lengths", "lengths", "lengths_2d", "negative_alone", "negative_mixed"])
        if kind == "lengths_2d":
            # an r x c block of wells on both sides, volumes as one row or one column of that block: r*c wells
            # against c or r volumes - incompatible lengths, however the shapes look to array broadcasting
            r_, c_ = rng.choice([(2, 2), (2, 3), (3, 2), (2, 4), (3, 3)])
            n = r_ * c_
            s, d, v = (s * n)[:n], (d * n)[:n], (v * n)[:n]
            blk = lambda xs: [[xs[j * r_ + i] for j in range(c_)] for i in range(r_)]
            op["sw"], op["dw"] = enc(np.array(blk(s))), enc(np.array(blk(d)))
            if rng.random() < 0.3:
                op["sw"] = blk(s)
            vv = [v[:c_]] if rng.random() < 0.5 else [[x] for x in v[:r_]]
            op["vol"] = enc(np.array(vv, dtype=float)) if rng.random() < 0.7 else vv
            case["malformed"] = "lengths:2d_" + ("row" if len(vv) == 1 else "column")
        elif kind == "lengths":
            n = max(n, 3)
            s = (s * n)[:n]
            d = (d * n)[:n]
            v = (v * n)[:n]
            which = rng.choice(["sw", "dw", "vol"])
            cut = rng.randint(2, n - 1)
            op["sw"], op["dw"], op["vol"] = list(s), list(d), list(v)
            op[which] = op[which][:cut]
            case["malformed"] = f"lengths:{which}"
        elif kind == "negative_alone":
            op["sw"], op["dw"], op["vol"] = s[0], d[0], -rng.choice([1.0, 0.5, 100.0, 1e-3])
            case["malformed"] = "negative_alone"
        else:
            n = max(n, 2)
            s, d, v = (s * n)[:n], (d * n)[:n], (v * n)[:n]
            k = rng.randrange(n)
            v[k] = -rng.choice([1.0, 0.5, 100.0, 1e-3])
            op["sw"], op["dw"], op["vol"] = list(s), list(d), list(v)
            case["malformed"] = "negative_mixed"
    return case


def col_of(desc, device, position):
    p = position - 1
    if desc["kind"] == "trough":
        return p if device == "fluent" else p // desc["virtual_rows"]
    return p // desc["rows"]


def run_transfer(case, op, device=None):
    w = World(case)
    out = w.exec(op)
    return w, out


def flows_of(ctx, case, records, op, what):
    """Decode the A/D records of one transfer into aggregated flows (src real well -> dst real well)."""
    interp = gwl.Interp(case["worktable"], case["worklist"]["device"])
    for r in records:
        interp.apply(r)
    agg, cnt = defaultdict(Fraction), defaultdict(int)
    for (sr, si, dr, di, vol) in interp.flows:
        agg[(sr, si, dr, di)] += vol
        cnt[(sr, si, dr, di)] += 1
    return agg, cnt


def run_case(ctx, case):
    op = case["op"]
    dev = case["worklist"]["device"]
    descs = {d["name"]: d for d in case["worktable"]}
    diti = case["worklist"].get("diti_mode", False)
    wlmax = case["worklist"]["max_volume"]
    ctx.feature("wash", repr(op["wash"]))
    ctx.feature("diti_mode", diti)
    ctx.feature("device", dev)
    w, out = run_transfer(case, op)
    det = lambda extra=None: dict({"op": enc(op), "worklist": case["worklist"], "raised": repr(out.exc), "records": list(out.appended)[:40]}, **(extra or {}))
    if case.get("malformed"):
        ctx.count("malformed:" + case["malformed"])
        key = None
        if out.exc is None and case["malformed"].startswith("negative"):
            key = D2
        ctx.check("malformed_transfer_is_rejected", out.exc is not None, det, key=key)
        ctx.case(case, True)
        return
    s, d, v = progmon.triples_of(op)
    n = len(s)
    if not ctx.check("steered_transfer_succeeds", out.exc is None, det):
        ctx.case(case, False)
        return
    try:
        recs = [gwl.parse(r) for r in out.appended]
    except gwl.GrammarError as e:
        ctx.check("records_parse", False, lambda: det({"error": str(e)}))
        ctx.case(case, False)
        return
    # ---------------- automaton over the appended records:  [C]* ( A D action? B* )*
    i = 0
    label = op.get("label")
    want_c = [l.strip() for l in (label or "").split("\n") if l.strip()]
    got_c = []
    while i < len(recs) and recs[i].type == "C":
        got_c.append(recs[i].f["text"])
        i += 1
    # leading comment records (the label) are C09's business, not judged here
    ctx.count("observed:label_comment_first" if got_c == want_c else "observed:other_leading_comments")
    wash = op["wash"]
    if wash == "reuse":
        action = None
    elif wash == "flush":
        action = "F;"
    else:
        action = "W;" if diti else f"W{wash};"
    kw = dec(op.get("kw", {})) or {}
    want_lc = kw.get("liquid_class", "")
    sname, dname = op["src"], op["dst"]
    pairs = []  # (A rec, D rec, index of first record after pair+action)
    ok_auto, why = True, None
    breaks_after = []  # for every pair: True if a B; follows (after the action)
    while i < len(recs):
        a = recs[i]
        if a.type != "A" or i + 1 >= len(recs) or recs[i + 1].type != "D":
            ok_auto, why = False, f"record {i}: expected an aspirate immediately followed by a dispense, got {a.raw!r}"
            break
        dd = recs[i + 1]
        same = (a.f["volume_s"] == dd.f["volume_s"] and a.f["liquid_class"] == dd.f["liquid_class"] and a.f["tip_mask"] == dd.f["tip_mask"])
        if not same:
            ok_auto, why = False, f"records {i},{i + 1}: aspirate and dispense differ in volume / liquid class / tip mask"
            break
        i += 2
        if action is not None:
            if i >= len(recs) or recs[i].raw != action:
                ok_auto, why = False, f"record {i}: expected tip action {action!r}, got {recs[i].raw if i < len(recs) else None!r}"
                break
            i += 1
        elif i < len(recs) and recs[i].type in ("W", "F", "WD"):
            ok_auto, why = False, f"record {i}: tip action {recs[i].raw!r} although reuse was requested"
            break
        nb = 0
        while i < len(recs) and recs[i].type == "B":
            nb += 1
            i += 1
        pairs.append((a, dd))
        breaks_after.append(nb > 0)
    ctx.check("every_aspirate_followed_by_matching_dispense_and_tip_action", ok_auto, lambda: det({"why": why}))
    if not ok_auto:
        ctx.case(case, False)
        return
    # pass-through of the liquid class, racks named
    ok_kw = all(a.f["liquid_class"] == want_lc and a.f["label"] == sname and dd.f["label"] == dname for a, dd in pairs)
    ctx.check("pairs_carry_liquid_class_and_rack_labels", ok_kw, det)
    for fld in ("rack_id", "rack_type", "tube_id", "forced_rack_type"):
        if fld in kw:
            ctx.check("pairs_carry_pass_through_fields", all(a.f[fld] == kw[fld] and dd.f[fld] == kw[fld] for a, dd in pairs), det)
    # ---------------- flows
    req = defaultdict(Fraction)
    nz = 0
    for si, di, vi in zip(s, d, v):
        if vi > 0:
            nz += 1
            req[(sname, real_index(descs[sname], si), dname, real_index(descs[dname], di))] += fr(vi)
    try:
        agg, cnt = flows_of(ctx, case, out.appended, op, "first")
    except gwl.ReplayError as e:
        ctx.check("records_executable", False, lambda: det({"error": str(e)}))
        ctx.case(case, False)
        return
    okf = set(k for k, x in agg.items() if x > 0) <= set(req) and all(
        abs(agg.get(k, 0) - x) <= Fraction(1, 200) * max(1, cnt.get(k, 0)) + Fraction(1e-9) * x for k, x in req.items()
    )
    ctx.check(
        "aggregated_flows_equal_requested",
        okf,
        lambda: det({"requested": {str(k): float(x) for k, x in req.items()}, "decoded": {str(k): float(x) for k, x in agg.items()}}),
    )
    # ---------------- break record closes every column group that contained a split volume
    pb = op.get("pb", "auto")
    if pb == "auto":
        pb_eff = "destination" if (descs[sname]["kind"] == "trough" and descs[dname]["kind"] != "trough") else "source"
    else:
        pb_eff = pb
    split_cols = set()
    for si, di, vi in zip(s, d, v):
        if vi > wlmax and case["worklist"].get("auto_split", True):
            split_cols.add(int((si if pb_eff == "source" else di)[1:]) - 1)
    side_desc = descs[sname] if pb_eff == "source" else descs[dname]
    groups = []  # (column, index of last pair)
    for j, (a, dd) in enumerate(pairs):
        col = col_of(side_desc, dev, (a if pb_eff == "source" else dd).f["position"])
        if not groups or groups[-1][0] != col:
            groups.append([col, j])
        else:
            groups[-1][1] = j
    okb = all(breaks_after[last] for col, last in groups if col in split_cols)
    if split_cols:
        ctx.count("transfers_with_split_column_group")
        ctx.check("break_record_closes_split_column_groups", okb,
                  lambda: det({"split_columns": sorted(split_cols), "groups": groups, "partition_side": pb_eff}))
    cols_seen = [g[0] for g in groups]
    # one contiguous run of pairs per column of the partitioning side (their order is C18's business, and only
    # decided for columns 1..99 there)
    ctx.check("column_groups_contiguous", len(cols_seen) == len(set(cols_seen)), lambda: det({"group_columns": cols_seen}))
    # ---------------- metamorphic: permuted triples + another partition mode, fresh identical labware
    rng = random.Random(case["perm_seed"])
    order = list(range(n))
    rng.shuffle(order)
    op2 = dict(op)
    op2["sw"], op2["dw"], op2["vol"] = [s[k] for k in order], [d[k] for k in order], [v[k] for k in order]
    if n == 1:
        op2["sw"], op2["dw"], op2["vol"] = s[0], d[0], v[0]
    op2["pb"] = case["other_pb"]
    w2, out2 = run_transfer(case, op2)
    det2 = lambda extra=None: dict(det(), **{"permuted_op": enc(op2), "permuted_raised": repr(out2.exc), "permuted_records": list(out2.appended)[:40]}, **(extra or {}))
    if ctx.check("permuted_transfer_also_succeeds", out2.exc is None, det2):
        try:
            agg2, cnt2 = flows_of(ctx, case, out2.appended, op2, "permuted")
            okm = set(agg) | set(agg2) == set(k for k in set(agg) | set(agg2)) and all(
                abs(agg.get(k, 0) - agg2.get(k, 0)) <= Fraction(1, 200) * (cnt.get(k, 0) + cnt2.get(k, 0) + 1) for k in set(agg) | set(agg2)
            )
            ctx.check("flows_independent_of_order_and_partition_mode", okm, det2)
        except gwl.ReplayError as e:
            ctx.check("records_executable", False, lambda: det2({"error": str(e)}))
        same_state = all(
            np.allclose(w.lw[nm].volumes, w2.lw[nm].volumes, rtol=1e-9, atol=1e-9) for nm in w.lw
        )
        ctx.check("final_volumes_independent_of_order_and_partition_mode", same_state, det2)
        ctx.count("metamorphic_pairs")
    # features
    sh = op.get("_shapes", ["", "", "", ""])
    ctx.feature("shapes", "/".join(sh[:3]))
    ctx.feature("mode", sh[3] if len(sh) > 3 else "")
    if "scalar" in sh[:3]:
        ctx.count("broadcast:" + ",".join(str(k) for k, x in enumerate(sh[:3]) if x == "scalar"))
    ctx.feature("partition_by", pb)
    if "tip" in kw:
        ctx.count("tip_kwarg")
    # non-trivial: order on the partitioning side differs from input order
    keyside = [(si if pb_eff == "source" else di) for si, di in zip(s, d)]
    srt = sorted(range(n), key=lambda k: (int(keyside[k][1:]), keyside[k][0]))
    ctx.case(case, n >= 2 and srt != list(range(n)))


def gates(stats, tier):
    c, f = stats["counters"], stats["features"]
    r = []
    for k in ("rule:every_aspirate_followed_by_matching_dispense_and_tip_action", "rule:aggregated_flows_equal_requested",
              "rule:break_record_closes_split_column_groups", "rule:flows_independent_of_order_and_partition_mode",
              "rule:final_volumes_independent_of_order_and_partition_mode", "rule:malformed_transfer_is_rejected",
              "rule:pairs_carry_liquid_class_and_rack_labels", "rule:pairs_carry_pass_through_fields", "tip_kwarg",
              "malformed:negative_alone", "malformed:negative_mixed", "broadcast:0", "broadcast:1", "broadcast:2"):
        if not c.get(k):
            r.append(f"never evaluated/observed: {k}")
    if not any(k.startswith("malformed:lengths") for k in c):
        r.append("never observed: malformed lengths")
    want_wash = {"1", "2", "3", "4", "'flush'", "'reuse'"}
    if not want_wash <= set(map(str, f.get("wash", ()))):
        r.append(f"wash schemes observed: {sorted(map(str, f.get('wash', ())))}")
    if len(set(map(str, f.get("diti_mode", ())))) < 2:
        r.append("DiTi mode on and off not both observed")
    if set(f.get("device", ())) != {"evo", "fluent"}:
        r.append("both devices not observed")
    if not {"auto", "source", "destination"} <= set(f.get("partition_by", ())):
        r.append("partition modes not all observed")
    if stats["distinct_nontrivial"] < (50 if tier == "quick" else 1000):
        r.append("too few distinct non-trivial cases")
    return r
