"""C15 - well transforms (shift / rotate / randomize) are exact inverses and geometrically correct.

Oracle = algebraic laws on the return values, with expected well ids computed here from row letters
and column numbers (no robotools helper is used for an expectation).
"""
from __future__ import annotations

import random

import numpy as np

from ..attach import shape_of, to_nested

ID = "C15"
TITLE = "Well transforms are exact inverses and geometrically correct"
LEVEL = "exploration"
TECHNIQUE = (
    "runtime monitoring: algebraic-law oracles (inverse, offset, rotation geometry, permutation, determinism, "
    "shape preservation) on every return value; exhaustive over plate shapes for rotation and randomisation"
)
ATTACH = ()
RULE = (
    "cases = (a) every plate shape 1..16 x 1..24 with WellRotator of the shape and of the rotated shape, "
    "(b) every plate shape x mode {full,row,column} x seed (0..2 quick, 0..9 thorough) with two WellRandomizer "
    "objects of the same seed, (c) sampled (shape_A, shape_B) pairs with EVERY well of B (plus ids outside B) as "
    "anchor of a WellShifter, (d) unsupported mode names; each case feeds the whole plate (2-D array, nested "
    "list, flat list, column-major 1-D array), a row, a column, a 2-D block, single-element (1,) and (1,1) "
    "arrays, a list with repeated wells and a 2-D array of scattered wells through every function; "
    "non-trivial = shape (shape_A for shifting, with a fitting non-zero anchor) with rows >= 2, columns >= 2, "
    "rows != columns; distinct = distinct (kind, shapes, mode, seed) hashes"
)
ASSUMPTIONS = [
    "well ids are '<row letter><column number, 2 digits>'; the expected ids are built here from that format",
    "unshift / derandomize are only judged on the image of the forward transform (ids that can come out of it)",
    "a call that raises on a valid array counts as not preserving the shape of that array",
    "0-d inputs (a bare string) and empty arrays are not generated: the statement speaks of 1-D and 2-D sub-arrays",
    "anchors outside plate B are generated as well-formed ids of a row / column beyond B only",
    "for 2-D inputs the randomised image handed to derandomize_wells is assembled from the 1-D call, because "
    "the permutation is a function of the well id only (fully determined by the seed)",
]
EXHAUSTIVE = "all 384 plate shapes 1..16 x 1..24: rotation; randomisation x 3 modes x seeds (0..2 quick, 0..9 thorough)"

MAX_R, MAX_C = 16, 24
LETTERS = "ABCDEFGHIJKLMNOPQRSTUVWXYZ"
MODES = ("full", "row", "column")
BAD_MODES = ["rows", "columns", "col", "Full", "ROW", "", "random", "full ", None, 0, "both", "plate"]
D8_KEY = "C15.randomizer_2d"


def wid(r: int, c: int) -> str:
    return LETTERS[r] + ("%02d" % (c + 1))


def n_seeds(tier):
    return 3 if tier == "quick" else 10


def n_sub(tier):
    """number of differently sampled sub-array sets per shape in the rotation enumeration"""
    return 1 if tier == "quick" else 10


def n_shift(tier):
    return 300 if tier == "quick" else 5000


def n_cases(tier):
    return n_shift(tier) + (36 if tier == "quick" else 240)


# ---------------------------------------------------------------------------------------------
# generated part: shift pairs and unsupported modes
# ---------------------------------------------------------------------------------------------
def gen_case(rng, tier, index):
    if index >= n_shift(tier):
        k = index - n_shift(tier)
        return {
            "kind": "badmode",
            "shape": [rng.randint(1, MAX_R), rng.randint(1, MAX_C)],
            "seed": rng.randint(0, 9),
            "mode": BAD_MODES[k % len(BAD_MODES)],
        }
    cls = ("fits", "fits", "fits", "equal", "rows_exceed", "cols_exceed", "both_exceed", "row_A", "col_A", "one_A",
           "tight_rows", "tight_cols")[index % 12]
    rb, cb = rng.randint(1, MAX_R), rng.randint(1, MAX_C)
    if rng.random() < 0.15:
        rb, cb = rng.choice([(8, 12), (16, 24), (4, 6), (6, 8), (2, 3), (1, 24), (16, 1)])
    if cls == "fits":
        ra, ca = rng.randint(1, rb), rng.randint(1, cb)
    elif cls == "equal":
        ra, ca = rb, cb
    elif cls == "rows_exceed":
        rb = min(rb, MAX_R - 1)
        ra, ca = rng.randint(rb + 1, MAX_R), rng.randint(1, cb)
    elif cls == "cols_exceed":
        cb = min(cb, MAX_C - 1)
        ra, ca = rng.randint(1, rb), rng.randint(cb + 1, MAX_C)
    elif cls == "both_exceed":
        rb, cb = min(rb, MAX_R - 1), min(cb, MAX_C - 1)
        ra, ca = rng.randint(rb + 1, MAX_R), rng.randint(cb + 1, MAX_C)
    elif cls == "row_A":
        ra, ca = 1, rng.randint(1, cb)
    elif cls == "col_A":
        ra, ca = rng.randint(1, rb), 1
    elif cls == "one_A":
        ra, ca = 1, 1
    elif cls == "tight_rows":
        ra, ca = rb, rng.randint(1, cb)
    else:
        ra, ca = rng.randint(1, rb), cb
    return {"kind": "shift", "A": [ra, ca], "B": [rb, cb], "sub": rng.randint(0, 10**6)}


# ---------------------------------------------------------------------------------------------
# inputs: nested lists of (row, column) coordinates + the container they are passed in
# ---------------------------------------------------------------------------------------------
def _inputs(rng, R, C):
    """[(name, container, coords)]: coords is a 1-D list or a 2-D nested list of (r, c)."""
    plate = [[(r, c) for c in range(C)] for r in range(R)]
    r0, c0 = rng.randrange(R), rng.randrange(C)
    ra, rb = sorted((rng.randrange(R), rng.randrange(R)))
    ca, cb = sorted((rng.randrange(C), rng.randrange(C)))
    k = rng.randint(2, 12)
    h, w = rng.randint(1, 4), rng.randint(1, 5)
    rw = lambda: (rng.randrange(R), rng.randrange(C))
    return [
        ("plate2d", "array", plate),
        ("plate_nested_list", "list", plate),
        ("flat_list", "list", [(r, c) for r in range(R) for c in range(C)]),
        ("flat_colmajor_array", "array", [(r, c) for c in range(C) for r in range(R)]),
        ("row_array", "array", [(r0, c) for c in range(C)]),
        ("column_list", "list", [(r, c0) for r in range(R)]),
        ("block2d", "array", [[(r, c) for c in range(ca, cb + 1)] for r in range(ra, rb + 1)]),
        ("single1d_array", "array", [(r0, c0)]),
        ("single1d_list", "list", [(r0, c0)]),
        ("single2d", "array", [[(r0, c0)]]),
        ("repeats_list", "list", [rw() for _ in range(k)]),
        ("scattered2d", "array", [[rw() for _ in range(w)] for _ in range(h)]),
        # the same values in another memory layout (what numpy returns for column selections /
        # transposed views): element (i, j) must still map to element (i, j)
        ("block2d_fortran", "farray", [[(r, c) for c in range(ca, cb + 1)] for r in range(ra, rb + 1)]),
        ("plate2d_fortran", "farray", plate),
        ("scattered2d_fortran", "farray", [[rw() for _ in range(w)] for _ in range(h)]),
    ]


def _is2d(coords):
    return isinstance(coords[0], list)


def _map(coords, f):
    if _is2d(coords):
        return [[f(r, c) for (r, c) in row] for row in coords]
    return [f(r, c) for (r, c) in coords]


def _flat(nested):
    if nested and isinstance(nested[0], list):
        return [x for row in nested for x in row]
    return list(nested)


def _is_perm(lst, all_ids):
    return len(lst) == len(all_ids) and set(lst) == set(all_ids)


def _row(o):
    return o[0] if isinstance(o, str) and o else None


def _col(o):
    return o[1:] if isinstance(o, str) and o else None


def _arg(ids, container):
    if container == "farray":
        return np.asfortranarray(np.array(ids))
    return np.array(ids) if container == "array" else ids


def _shape_class(ctx, fam, R, C):
    if R == 1:
        ctx.count(f"shape:{fam}:single_row")
    if C == 1:
        ctx.count(f"shape:{fam}:single_column")
    if R == C:
        ctx.count(f"shape:{fam}:square")
    else:
        ctx.count(f"shape:{fam}:non_square")


def _nontrivial(R, C):
    return R >= 2 and C >= 2 and R != C


def _provoke(ctx, rng, obj, methods):
    """Calls that raise (a typo in a well ID, a well outside the plate) - the caller catches the error and goes on
    using the same object, which must behave as if nothing had happened."""
    for m in methods:
        if rng.random() < 0.5:
            continue
        for bad in (["ZZ99"], ["A00"], [["A01", "Q77"]]):
            try:
                getattr(obj, m)(bad)
            except Exception:
                ctx.count("refused_call_before_the_judged_ones")


def _trash(ctx, obj):
    """The object is not used any more; whatever it exposes is overwritten (tables re-used as scratch space).
    Objects constructed later must not notice."""
    for k, v in list(vars(obj).items()):
        try:
            if isinstance(v, np.ndarray) and v.size and v.flags.writeable:
                v[...] = "ZZ9" if v.dtype.kind in "USO" else 0
            elif isinstance(v, dict) and v:
                v.clear()
            elif isinstance(v, list) and v:
                v.clear()
            else:
                continue
            ctx.count("discarded_object_overwritten")
        except Exception:
            pass


class _Judge:
    """Calls one transform function on one input and evaluates the shape rule."""

    def __init__(self, ctx, fam, base):
        self.ctx = ctx
        self.fam = fam
        self.base = base  # dict describing the configuration (for details)

    def call(self, fname, fn, ids, container, name):
        """Returns the nested-list result or None (violation already recorded)."""
        ctx = self.ctx
        shp = shape_of(ids)
        ndim = len(shp)
        arg = _arg(ids, container)
        try:
            out, exc = fn(arg), None
        except Exception as e:  # observed only
            out, exc = None, e
        oshape = None
        if exc is None:
            try:
                oshape = tuple(np.shape(out))
            except Exception:
                oshape = None
        key = None
        if (
            exc is not None
            and isinstance(exc, TypeError)
            and ndim >= 2
            and fname in ("randomize_wells", "derandomize_wells")
        ):
            key = D8_KEY
        ctx.count(f"input:{self.fam}:{ndim}d")
        ctx.check(
            "preserves_shape_2d" if ndim >= 2 else "preserves_shape_1d",
            exc is None and oshape == tuple(shp),
            lambda: dict(self.base, function=fname, input_kind=name, container=container, input=ids,
                         input_shape=list(shp), returned=to_nested(out) if exc is None else None,
                         returned_shape=list(oshape) if oshape is not None else None, raised=repr(exc)),
            key=key,
        )
        if exc is not None or oshape != tuple(shp):
            return None
        res = to_nested(out)
        # the result belongs to the caller, and so does the argument: both are overwritten after the call
        # (blanking wells of a layout in place); later calls on the same object must not see that
        for a in (out, arg):
            if isinstance(a, np.ndarray) and a.size and a.flags.writeable:
                try:
                    a[...] = "ZZ9"
                    ctx.count("caller_overwrote_returned_or_passed_array")
                except Exception:
                    pass
        return res

    def eq(self, rule, got, want, fname, name, ids):
        return self.ctx.check(
            rule,
            got == want,
            lambda: dict(self.base, function=fname, input_kind=name, input=ids, expected=want, returned=got),
        )


# ---------------------------------------------------------------------------------------------
# shift
# ---------------------------------------------------------------------------------------------
def _run_shift(ctx, case):
    from robotools.transform import WellShifter

    (ra, ca), (rb, cb) = case["A"], case["B"]
    rng = random.Random(f"C15/shift/{ra}x{ca}/{rb}x{cb}/{case.get('sub', 0)}")
    inputs = _inputs(rng, ra, ca)
    _shape_class(ctx, "shift", ra, ca)
    some_offset = False
    for dr in range(rb):
        for dc in range(cb):
            anchor = wid(dr, dc)
            fits = ra + dr <= rb and ca + dc <= cb
            try:
                sh, exc = WellShifter((ra, ca), (rb, cb), anchor), None
            except Exception as e:
                sh, exc = None, e
            det = lambda: {"shape_A": [ra, ca], "shape_B": [rb, cb], "shifted_A01": anchor, "fits": fits,
                           "raised": repr(exc)}
            if not fits:
                ctx.count("anchor:not_fitting")
                ctx.check("constructor_refuses_when_A_does_not_fit", exc is not None, det)
                continue
            ctx.count("anchor:fitting")
            if ra + dr == rb or ca + dc == cb:
                ctx.count("anchor:fitting_exactly_at_the_edge")
            if not ctx.check("constructor_accepts_when_A_fits", exc is None, det):
                continue
            if dr or dc:
                some_offset = True
            J = _Judge(ctx, "shift", {"shape_A": [ra, ca], "shape_B": [rb, cb], "shifted_A01": anchor})
            _provoke(ctx, rng, sh, ("shift", "unshift"))
            for name, container, coords in inputs:
                x = _map(coords, wid)
                y = _map(coords, lambda r, c: wid(r + dr, c + dc))
                out = J.call("shift", sh.shift, x, container, name)
                if out is not None and J.eq("shift_adds_anchor_offset", out, y, "shift", name, x):
                    back = J.call("unshift", sh.unshift, out, container, name)
                    if back is not None:
                        J.eq("unshift_inverts_shift", back, x, "unshift(shift(x))", name, x)
                # y lies in the image of shift by construction
                pre = J.call("unshift", sh.unshift, y, container, name)
                if pre is not None:
                    again = J.call("shift", sh.shift, pre, container, name)
                    if again is not None:
                        J.eq("shift_inverts_unshift", again, y, "shift(unshift(y))", name, y)
            # wells of B that no well of A is shifted onto: unshift may refuse them; an answer it does give must
            # be the well that shift maps back (mutually inverse)
            outside_img = [(r, c) for r in range(rb) for c in range(cb) if not (dr <= r < dr + ra and dc <= c < dc + ca)]
            for (r, c) in rng.sample(outside_img, min(3, len(outside_img))):
                b = wid(r, c)
                try:
                    a = list(np.atleast_1d(sh.unshift([b])).tolist())
                    e1 = None
                except Exception as e:
                    a, e1 = None, e
                if e1 is not None:
                    ctx.count("unshift_outside_image_refused")
                    continue
                try:
                    back = list(np.atleast_1d(sh.shift(a)).tolist())
                except Exception:
                    back = None
                ctx.count("unshift_outside_image_answered")
                ctx.check("unshift_answer_is_mapped_back_by_shift", back == [b],
                          lambda: {"shape_A": [ra, ca], "shape_B": [rb, cb], "shifted_A01": anchor, "well_of_B": b,
                                   "unshift_returned": a, "shift_of_that": back})
            _trash(ctx, sh)
    # anchors that are not wells of B
    outside = []
    if rb < 26:
        outside.append(wid(rb, 0))
        outside.append(wid(rb, cb))
    outside.append(wid(0, cb))
    outside.append(wid(min(25, rb + 3), cb + 5))
    for anchor in outside:
        try:
            WellShifter((ra, ca), (rb, cb), anchor)
            exc = None
        except Exception as e:
            exc = e
        ctx.count("anchor:outside_B")
        ctx.check(
            "constructor_refuses_anchor_outside_B",
            exc is not None,
            lambda: {"shape_A": [ra, ca], "shape_B": [rb, cb], "shifted_A01": anchor, "raised": repr(exc)},
        )
    ctx.case(case, _nontrivial(ra, ca) and some_offset)


# ---------------------------------------------------------------------------------------------
# rotation
# ---------------------------------------------------------------------------------------------
def _run_rotate(ctx, case):
    from robotools.transform import WellRotator

    R, C = case["shape"]
    rng = random.Random(f"C15/rotate/{R}x{C}/{case.get('sub', 0)}")
    _shape_class(ctx, "rotate", R, C)
    ctx.case(case, _nontrivial(R, C))
    try:
        rot, rot_t, exc = WellRotator((R, C)), WellRotator((C, R)), None
    except Exception as e:
        rot = rot_t = None
        exc = e
    if not ctx.check("constructs_for_every_shape", exc is None,
                     lambda: {"class": "WellRotator", "shape": [R, C], "raised": repr(exc)}):
        return
    J = _Judge(ctx, "rotate", {"shape": [R, C]})
    _provoke(ctx, rng, rot, ("rotate_cw", "rotate_ccw"))
    try:
        _trash(ctx, WellRotator((R, C)))  # somebody else's rotator of the same plate, used up and overwritten
    except Exception:
        pass
    for name, container, coords in _inputs(rng, R, C):
        x = _map(coords, wid)
        # clockwise: (r, c) on R x C  ->  (c, R-1-r) on C x R
        want_cw = _map(coords, lambda r, c: wid(c, R - 1 - r))
        cw = J.call("rotate_cw", rot.rotate_cw, x, container, name)
        if cw is not None and J.eq("rotate_cw_maps_rc_to_c_Rm1mr", cw, want_cw, "rotate_cw", name, x):
            back = J.call("rotate_ccw", rot_t.rotate_ccw, cw, container, name)
            if back is not None:
                J.eq("ccw_inverts_cw", back, x, "Rot(C,R).rotate_ccw(Rot(R,C).rotate_cw(x))", name, x)
            # four clockwise rotations, alternating rotators
            cur = cw
            for step, rr in enumerate((rot_t, rot, rot_t)):
                cur = J.call("rotate_cw", rr.rotate_cw, cur, container, name)
                if cur is None:
                    break
            if cur is not None:
                J.eq("four_cw_rotations_are_identity", cur, x, "rotate_cw x4", name, x)
        # counter-clockwise = inverse of the clockwise rotation of the rotated plate: (r, c) -> (C-1-c, r)
        want_ccw = _map(coords, lambda r, c: wid(C - 1 - c, r))
        ccw = J.call("rotate_ccw", rot.rotate_ccw, x, container, name)
        if ccw is not None:
            J.eq("rotate_ccw_is_inverse_geometry", ccw, want_ccw, "rotate_ccw", name, x)
            back = J.call("rotate_cw", rot_t.rotate_cw, ccw, container, name)
            if back is not None:
                J.eq("cw_inverts_ccw", back, x, "Rot(C,R).rotate_cw(Rot(R,C).rotate_ccw(x))", name, x)
            cur = ccw
            for rr in (rot_t, rot, rot_t):
                cur = J.call("rotate_ccw", rr.rotate_ccw, cur, container, name)
                if cur is None:
                    break
            if cur is not None:
                J.eq("four_ccw_rotations_are_identity", cur, x, "rotate_ccw x4", name, x)


# ---------------------------------------------------------------------------------------------
# randomisation
# ---------------------------------------------------------------------------------------------
def _run_random(ctx, case):
    from robotools.transform import WellRandomizer

    R, C = case["shape"]
    mode, seed = case["mode"], case["seed"]
    rng = random.Random(f"C15/random/{R}x{C}/{mode}/{seed}/{case.get('sub', 0)}")
    _shape_class(ctx, "random", R, C)
    ctx.count("mode:" + mode)
    ctx.case(case, _nontrivial(R, C))
    base = {"shape": [R, C], "mode": mode, "seed": seed}
    try:
        # the assignment of this (shape, seed, mode), read from an object that is used at once ...
        early = list(WellRandomizer((R, C), seed, mode=mode).randomize_wells([wid(r, c) for r in range(R) for c in range(C)]))
        w1 = WellRandomizer((R, C), seed, mode=mode)
        w2 = WellRandomizer((R, C), seed, mode=mode)
        # ... while the objects under test are used only after OTHER randomizers were created in the same
        # process (another seed, another plate, another mode): those must not influence them
        for dshape, dseed, dmode in (((R, C), seed + 1, mode), ((max(1, R - 1), C + 1), seed, "full"),
                                     ((R, C), seed + 7, "column" if mode != "column" else "row")):
            try:
                _trash(ctx, WellRandomizer(dshape, dseed, mode=dmode))
            except Exception:
                pass
        exc = None
    except Exception as e:
        w1 = w2 = None
        exc = e
    if not ctx.check("constructs_for_every_shape", exc is None,
                     lambda: dict(base, **{"class": "WellRandomizer", "raised": repr(exc)})):
        return
    J = _Judge(ctx, "random", base)
    all_ids = [wid(r, c) for r in range(R) for c in range(C)]
    # the permutation, read through 1-D calls (one well at a time would be the same: checked below)
    perm_out = J.call("randomize_wells", w1.randomize_wells, all_ids, "list", "flat_list")
    perm = None
    if perm_out is not None:
        ok = _is_perm(perm_out, all_ids)
        ctx.check("whole_plate_is_permuted_bijectively", ok,
                  lambda: dict(base, function="randomize_wells", input=all_ids, returned=perm_out))
        if ok:
            perm = dict(zip(all_ids, perm_out))
        J.eq("same_seed_gives_same_mapping", list(perm_out), early,
             "randomize_wells (object used after other randomizers were created vs. object used at once)", "flat_list", all_ids)
        inv_out = J.call("derandomize_wells", w1.derandomize_wells, all_ids, "list", "flat_list")
        if inv_out is not None:
            ctx.check("whole_plate_is_permuted_bijectively",
                      _is_perm(inv_out, all_ids),
                      lambda: dict(base, function="derandomize_wells", input=all_ids, returned=inv_out))
    if perm is not None and R * C > 1:
        # "fully determined by the seed": objects with another QUERY HISTORY - asked first for the last well only, for
        # the plate back to front, or for the pre-image of the last well - answer with the same assignment
        inv = {v: k for k, v in perm.items()}
        last = all_ids[-1]
        rev = all_ids[::-1]
        pick = [all_ids[i] for i in sorted(rng.sample(range(len(all_ids)), min(len(all_ids), 5)), reverse=True)]
        try:
            fresh = [WellRandomizer((R, C), seed, mode=mode) for _ in range(4)]
        except Exception:
            fresh = []
        if fresh:
            ctx.count("fresh_objects_with_other_query_history")
            o = J.call("randomize_wells", fresh[0].randomize_wells, [last], "list", "last_well_first")
            if o is not None:
                J.eq("same_seed_gives_same_mapping", list(o), [perm[last]], "randomize_wells (fresh object, first query is the last well)", "last_well_first", [last])
                o = J.call("randomize_wells", fresh[0].randomize_wells, all_ids, "list", "flat_list")
                if o is not None:
                    J.eq("same_seed_gives_same_mapping", list(o), list(perm_out), "randomize_wells (whole plate, object first asked for the last well)", "flat_list", all_ids)
            o = J.call("randomize_wells", fresh[1].randomize_wells, rev, "list", "plate_back_to_front")
            if o is not None:
                J.eq("same_seed_gives_same_mapping", list(o), [perm[i] for i in rev], "randomize_wells (fresh object, plate back to front)", "plate_back_to_front", rev)
            o = J.call("derandomize_wells", fresh[2].derandomize_wells, [last], "list", "last_well_first")
            if o is not None:
                J.eq("same_seed_gives_same_mapping", list(o), [inv[last]], "derandomize_wells (fresh object, first query is the last well)", "last_well_first", [last])
                o = J.call("randomize_wells", fresh[2].randomize_wells, all_ids, "list", "flat_list")
                if o is not None:
                    J.eq("same_seed_gives_same_mapping", list(o), list(perm_out), "randomize_wells (whole plate, object first asked to derandomize the last well)", "flat_list", all_ids)
            o = J.call("randomize_wells", fresh[3].randomize_wells, pick, "list", "few_wells_descending")
            if o is not None:
                J.eq("same_seed_gives_same_mapping", list(o), [perm[i] for i in pick], "randomize_wells (fresh object, a few wells in descending order)", "few_wells_descending", pick)
    for name, container, coords in _inputs(rng, R, C):
        x = _map(coords, wid)
        is2d = _is2d(coords)
        out = J.call("randomize_wells", w1.randomize_wells, x, container, name)
        if out is not None:
            fo, fx = _flat(out), _flat(x)
            if perm is not None:
                J.eq("every_element_follows_the_one_permutation", fo, [perm.get(i) for i in fx], "randomize_wells", name, x)
            if mode == "row":
                J.eq("row_mode_keeps_every_well_in_its_row", [_row(o) for o in fo], [_row(i) for i in fx],
                     "randomize_wells", name, x)
            if mode == "column":
                J.eq("column_mode_keeps_every_well_in_its_column", [_col(o) for o in fo], [_col(i) for i in fx],
                     "randomize_wells", name, x)
            if name in ("plate2d", "plate_nested_list", "flat_colmajor_array"):
                ctx.check("whole_plate_is_permuted_bijectively",
                          _is_perm(fo, all_ids),
                          lambda: dict(base, function="randomize_wells", input_kind=name, input=x, returned=out))
            again = J.call("randomize_wells", w1.randomize_wells, x, container, name)
            if again is not None:
                J.eq("same_seed_gives_same_mapping", again, out, "randomize_wells (same object, second call)", name, x)
            other = J.call("randomize_wells", w2.randomize_wells, x, container, name)
            if other is not None:
                J.eq("same_seed_gives_same_mapping", other, out, "randomize_wells (second object, same seed)", name, x)
            back = J.call("derandomize_wells", w1.derandomize_wells, out, container, name)
            if back is not None:
                J.eq("derandomize_inverts_randomize", back, x, "derandomize_wells(randomize_wells(x))", name, x)
            back2 = J.call("derandomize_wells", w2.derandomize_wells, out, container, name)
            if back2 is not None:
                J.eq("derandomize_inverts_randomize", back2, x,
                     "derandomize_wells of a second object with the same seed", name, x)
        # the other direction: every id of the plate is in the image, so x itself is a valid argument
        pre = J.call("derandomize_wells", w1.derandomize_wells, x, container, name)
        if pre is not None:
            fp, fx = _flat(pre), _flat(x)
            if mode == "row":
                J.eq("row_mode_keeps_every_well_in_its_row", [_row(o) for o in fp], [_row(i) for i in fx],
                     "derandomize_wells", name, x)
            if mode == "column":
                J.eq("column_mode_keeps_every_well_in_its_column", [_col(o) for o in fp], [_col(i) for i in fx],
                     "derandomize_wells", name, x)
            fwd = J.call("randomize_wells", w1.randomize_wells, pre, container, name)
            if fwd is not None:
                J.eq("randomize_inverts_derandomize", fwd, x, "randomize_wells(derandomize_wells(y))", name, x)
            other = J.call("derandomize_wells", w2.derandomize_wells, x, container, name)
            if other is not None:
                J.eq("same_seed_gives_same_mapping", other, pre, "derandomize_wells (second object, same seed)", name, x)
        if is2d and out is None and perm is not None:
            # the 2-D forward call failed: still hand the (independently assembled) image to derandomize
            y = [[perm[i] for i in row] for row in x]
            back = J.call("derandomize_wells", w1.derandomize_wells, y, container, name)
            if back is not None:
                J.eq("derandomize_inverts_randomize", back, x, "derandomize_wells(image assembled from 1-D call)", name, x)


def _run_badmode(ctx, case):
    from robotools.transform import WellRandomizer

    R, C = case["shape"]
    try:
        WellRandomizer((R, C), case["seed"], mode=case["mode"])
        exc = None
    except Exception as e:
        exc = e
    ctx.count("unsupported_mode")
    ctx.feature("unsupported_mode", repr(case["mode"]))
    ctx.check("unsupported_mode_raises", exc is not None,
              lambda: {"shape": [R, C], "seed": case["seed"], "mode": case["mode"], "raised": repr(exc)})
    ctx.case(case, False)


def run_case(ctx, case):
    case = {k: v for k, v in case.items() if k != "index"}  # the running number is not an input
    kind = case["kind"]
    ctx.count("kind:" + kind)
    from ..world import scribble_on_helper_results

    for shp in (case.get("shape"), case.get("A"), case.get("B")):
        if shp:
            scribble_on_helper_results(int(shp[0]), int(shp[1]))
            scribble_on_helper_results(int(shp[1]), int(shp[0]))
    if kind == "shift":
        _run_shift(ctx, case)
    elif kind == "rotate":
        _run_rotate(ctx, case)
    elif kind == "random":
        _run_random(ctx, case)
    elif kind == "badmode":
        _run_badmode(ctx, case)
    else:
        raise ValueError(kind)


# ---------------------------------------------------------------------------------------------
# exhaustive part
# ---------------------------------------------------------------------------------------------
def extra(ctx):
    shapes = [(R, C) for R in range(1, MAX_R + 1) for C in range(1, MAX_C + 1)]
    todo = [{"kind": "rotate", "shape": [R, C], "sub": sub} for R, C in shapes for sub in range(n_sub(ctx.tier))]
    for R, C in shapes:
        for mode in MODES:
            for seed in range(n_seeds(ctx.tier)):
                todo.append({"kind": "random", "shape": [R, C], "mode": mode, "seed": seed})
    # big shapes are expensive: deal them out round-robin in enumeration order
    for i in range(ctx.shard, len(todo), ctx.nshards):
        case = todo[i]
        ctx.current_case = case
        run_case(ctx, case)
        ctx.count("exhaustive:" + case["kind"])
    if ctx.shard == 0:
        ctx.count("exhaustive_complete")
    ctx.current_case = None


DECIDING = (
    "preserves_shape_1d",
    "preserves_shape_2d",
    "constructor_refuses_when_A_does_not_fit",
    "constructor_accepts_when_A_fits",
    "constructor_refuses_anchor_outside_B",
    "shift_adds_anchor_offset",
    "unshift_inverts_shift",
    "shift_inverts_unshift",
    "rotate_cw_maps_rc_to_c_Rm1mr",
    "ccw_inverts_cw",
    "cw_inverts_ccw",
    "four_cw_rotations_are_identity",
    "derandomize_inverts_randomize",
    "randomize_inverts_derandomize",
    "whole_plate_is_permuted_bijectively",
    "every_element_follows_the_one_permutation",
    "same_seed_gives_same_mapping",
    "row_mode_keeps_every_well_in_its_row",
    "column_mode_keeps_every_well_in_its_column",
    "unsupported_mode_raises",
)


def gates(stats, tier):
    c = stats["counters"]
    r = []
    for rule in DECIDING:
        if not c.get("rule:" + rule):
            r.append(f"deciding rule never evaluated: {rule}")
    want = MAX_R * MAX_C * n_sub(tier)
    if c.get("exhaustive:rotate", 0) != want:
        r.append(f"rotation not exhaustive: {c.get('exhaustive:rotate', 0)} of {want} (shape, sub-array sample)")
    want = MAX_R * MAX_C * len(MODES) * n_seeds(tier)
    if c.get("exhaustive:random", 0) != want:
        r.append(f"randomisation not exhaustive: {c.get('exhaustive:random', 0)} of {want} (shape, mode, seed)")
    if c.get("kind:shift", 0) < n_shift(tier):
        r.append(f"too few shift pairs: {c.get('kind:shift', 0)}")
    for fam in ("shift", "rotate", "random"):
        for cls in ("single_row", "single_column", "square", "non_square"):
            if not c.get(f"shape:{fam}:{cls}"):
                r.append(f"shape class never observed: {fam}/{cls}")
        for nd in ("1d", "2d"):
            if not c.get(f"input:{fam}:{nd}"):
                r.append(f"input dimensionality never observed: {fam}/{nd}")
    for m in MODES:
        if not c.get("mode:" + m):
            r.append(f"mode never observed: {m}")
    for k in ("anchor:fitting", "anchor:not_fitting", "anchor:fitting_exactly_at_the_edge", "anchor:outside_B",
              "unsupported_mode"):
        if not c.get(k):
            r.append(f"never observed: {k}")
    if stats["distinct_nontrivial"] < (50 if tier == "quick" else 1000):
        r.append(f"too few distinct non-trivial cases: {stats['distinct_nontrivial']}")
    return r
