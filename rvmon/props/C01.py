"""C01 - the emitted worklist reproduces the tracked labware state when executed."""
from __future__ import annotations

from .. import gen, gwl, progmon
from ..attach import flat_f, fr
from ..core import dec, enc
from ..world import World

ID = "C01"
TITLE = "The emitted worklist reproduces the tracked labware state when executed"
LEVEL = "exploration"
TECHNIQUE = (
    "runtime monitoring: independent .gwl interpreter replays the emitted records after every operation "
    "and is compared with the tracked volumes/compositions; per-operation addressing oracle"
)
ATTACH = ("labware", "worklist")
RULE = (
    "cases = generated programs (1..8 operations: transfer with every wash scheme / partition mode / "
    "split and unsplit volumes / repeats / 2-D / broadcast, distribute, manual aspirate+dispense with and "
    "without known composition, lone aspirate+flush) over 1..3 labware (plates up to 16x24, troughs with "
    "1..16 virtual rows x 1..4 columns), both devices, integer and non-integer max_volume, steered by the "
    "generator's exact volume model so that every operation succeeds; a case is non-trivial when at least one "
    "successful liquid-moving operation appended an A/D/R record; distinct = distinct program hashes"
)
ASSUMPTIONS = [
    "rvmon.gwl.Interp is the reference reading of the Tecan worklist format (A/D pair FIFO, R = one "
    "source well to every non-excluded destination position, W/F/B empty the tips)",
    "B;... script commands are covered by C13, not replayed here",
    "composition is compared numerically only in programs whose requested volumes lie on the 0.01 grid; "
    "in off-grid programs only the set of major components is compared (records carry rounded volumes)",
]
LEVEL_TEXT = (
    "Exploration: thousands of generated programs are executed on the real worklist classes; after every "
    "operation an independent interpreter replays all records emitted so far from the described initial "
    "worktable and must agree with Labware.volumes (two-decimal rounding per record) and, for untainted "
    "wells, Labware.composition. Held = no disagreement on the programs observed."
)

HOOK_RULES = ()


def n_cases(tier):
    return 1800 if tier == "quick" else 150000


def gen_case(rng, tier, index):
    if tier == "thorough":
        # deeper: longer programs, more large geometries (8x12, 16x24, random up to 16x24)
        case = gen.gen_program(rng, n_ops=rng.randint(1, 12), small=rng.random() < 0.5, nonlatin=True)
    else:
        small = rng.random() < 0.8
        case = gen.gen_program(rng, small=small, nonlatin=True)
    if rng.random() < 0.25 or any(ord(ch) > 255 for d in case["worktable"] for ch in d["name"]):
        case["save_file"] = True  # the file the robot executes is looked at as well
    return case


def _apply_fix_k1(ctx, case, op, sdesc):
    """Returns a record-fixer that reports finding K1 and lets the interpreter continue with the
    device-correct source range (so that the rest of the program is still judged)."""

    def fix(rec):
        if rec.type == "R" and progmon.k1_mechanism(case["worklist"]["device"], sdesc, op["col"], rec):
            ctx.violation(
                "C01.distribute_source_range_is_device_position",
                {
                    "op": enc(op),
                    "record": rec.raw,
                    "expected_range": [1 + op["col"], 1 + op["col"]],
                    "emitted_range": [rec.f["src_start"], rec.f["src_end"]],
                    "source_virtual_rows": sdesc["virtual_rows"],
                },
                key="C01.fluent_distribute_source_range",
            )
            rec.f["src_start"] = rec.f["src_end"] = 1 + op["col"]
        return rec

    return fix


def _judge_saved_file(ctx, case, w):
    """The records that were interpreted above are what the robot gets to see: the saved file holds exactly them
    (a refusal to save - a rack label outside Latin-1 - emits nothing and is not judged)."""
    import os

    from .. import env

    records = list(w.wl)
    d = env.workdir("C01") / str(os.getpid())
    d.mkdir(parents=True, exist_ok=True)
    path = d / "program.gwl"
    if path.exists():
        path.unlink()
    try:
        w.wl.save(path)
    except Exception as e:
        ctx.count("save_refused:" + type(e).__name__)
        return
    try:
        raw = path.read_bytes()
    except OSError:
        raw = None
    text = raw.decode("latin-1") if raw is not None else None
    got = (text.split("\r\n") if text else []) if text is not None else None
    ctx.count("saved_files_compared")
    ctx.check("C01.saved_file_holds_the_interpreted_records", got == records,
              lambda: {"records": records[:20], "file_records": None if got is None else got[:20],
                       "labware_names": [d_["name"] for d_ in case["worktable"]]})
    try:
        path.unlink()
    except OSError:
        pass


def run_case(ctx, case):
    w = World(case)
    dev = case["worklist"]["device"]
    descs = {d["name"]: d for d in case["worktable"]}
    interp = gwl.Interp(case["worktable"], dev)
    feeder = progmon.RecordFeeder(ctx, interp, "C01")
    # numeric composition comparison only where every requested volume lies on the 0.01 grid of the
    # record format (decided from the volumes themselves: draining a well may produce 0.625)
    def _on_grid(op):
        vols = [float(x) for x in flat_f(dec(op["vol"]))] if "vol" in op else []
        return all(abs(v * 100 - round(v * 100)) < 1e-7 for v in vols)

    grid = bool(case.get("grid")) and all(_on_grid(op) for op in case["ops"])
    moved = False
    ctx.feature("device", dev)
    ctx.feature("max_volume_integer", float(case["worklist"]["max_volume"]).is_integer())
    for opi, op in enumerate(case["ops"]):
        kind = op["op"]
        subs = []
        if kind == "manual":
            subs.append(("aspirate", {"op": "aspirate", "lw": op["src"], "wells": op["sw"], "vol": op["vol"], "label": op.get("label"), "kw": op.get("kw", {})}))
            subs.append(("dispense", None))  # built after the aspirate (needs interpreter state)
            if op.get("then") in ("wash", "flush", "commit"):
                subs.append((op["then"], {"op": op["then"]}))
        elif kind == "aspirate_flush":
            subs.append(("aspirate", {"op": "aspirate", "lw": op["lw"], "wells": op["wells"], "vol": op["vol"], "label": op.get("label")}))
            subs.append(("flush", {"op": "flush"}))
        else:
            subs.append((kind, op))
        stop = False
        pre_comps = None
        if kind == "manual":
            # what is in the source wells before the aspirate (removal does not change a mixture)
            s_ids, _d, _v = progmon.triples_of(op)
            pre_comps = [progmon.interp_fractions(interp, op["src"], descs[op["src"]], s) for s in s_ids]
        for sk, sub in subs:
            if sk == "dispense" and sub is None:
                s_ids, d_ids, vols = progmon.triples_of(op)
                comps = None
                if op.get("known", True):
                    comps = pre_comps
                sub = {"op": "dispense", "lw": op["dst"], "wells": op["dw"], "vol": op["vol"], "label": op.get("label"),
                       "comps": enc(comps), "kw": op.get("kw", {})}
                if not op.get("known", True):
                    ctx.count("dispense_without_composition")
            out = w.exec(sub)
            ctx.count("op:" + sk)
            if out.exc is not None:
                ctx.count("rejected:" + sk + ":" + type(out.exc).__name__)
                ctx.feature("rejection", f"{sk}:{type(out.exc).__name__}:{str(out.exc)[:60]}")
                stop = True
                break
            fix = None
            if sk == "distribute":
                fix = _apply_fix_k1(ctx, case, sub, descs[sub["src"]])
            fed = feeder.feed(out.appended, op=sub, fix=fix)
            if any(r.type in ("A", "D", "R") for r, _ in fed):
                moved = True
            if sk == "dispense" and kind == "manual":
                # where the harness withheld the composition from robotools (known=False, or no
                # composition could be stated for that element) the liquid is "unknown" to the
                # tracking: the wells that received it are excluded from composition comparison
                _s, d_ids, vols = progmon.triples_of(op)
                withheld = [not op.get("known", True) or pre_comps is None or pre_comps[i] is None for i in range(len(d_ids))]
                for d_, v_, wh in zip(d_ids, vols, withheld):
                    if v_ > 0 and wh:
                        from ..attach import real_index

                        interp.racks[op["dst"]].wells[real_index(descs[op["dst"]], d_)].tainted = True
            # ---- addressing of the records appended by this call
            if sk == "transfer":
                progmon.addressing_transfer(ctx, "C01", case, sub, fed, sub["src"], sub["dst"])
                s_, d_, v_ = progmon.triples_of(sub)
                if any(x > case["worklist"]["max_volume"] for x in v_):
                    ctx.count("split_transfer")
                else:
                    ctx.count("unsplit_transfer")
                ctx.feature("src_kind", descs[sub["src"]]["kind"])
                ctx.feature("wash", repr(sub.get("wash")))
                ctx.feature("partition_by", sub.get("pb"))
                ctx.feature("shapes", "/".join(sub.get("_shapes", [])[:3]))
            elif sk in ("aspirate", "dispense"):
                ids = flat_f(dec(sub["wells"]))
                vs = [float(x) for x in flat_f(dec(sub["vol"]))]
                if len(vs) == 1:
                    vs = vs * len(ids)
                exp = [(sub["lw"], progmon.pos_of(descs[sub["lw"]], dev, i)) for i, v in zip(ids, vs) if v > 0]
                obs = [(r.f["label"], r.f["position"]) for r, _ in fed if r.type == ("A" if sk == "aspirate" else "D")]
                ctx.check(
                    f"C01.{sk}_records_address_named_wells",
                    obs == exp,
                    lambda: {"op": enc(sub), "expected": exp, "observed": obs},
                )
            elif sk == "distribute":
                rs = [r for r, _ in fed if r.type == "R"]
                ids = flat_f(dec(sub["dw"]))
                vol = float(dec(sub["vol"]))
                ok = len(rs) == 1
                det = {"op": enc(sub), "records": [r.raw for r in rs]}
                if ok:
                    r = rs[0]
                    sd, dd = descs[sub["src"]], descs[sub["dst"]]
                    exp_src = progmon.pos_of(sd, dev, f"A{sub['col'] + 1:02d}")
                    exp_dst = sorted(progmon.pos_of(dd, dev, i) for i in ids)
                    got_dst = [p for p in range(r.f["dst_start"], r.f["dst_end"] + 1) if p not in r.f["exclude"]]
                    src_ok = (
                        r.f["src_label"] == sub["src"]
                        and {interp.racks[sub["src"]].decode(p, dev)[0] for p in range(r.f["src_start"], r.f["src_end"] + 1)}
                        == {(0, sub["col"])}
                    )
                    ok = src_ok and r.f["dst_label"] == sub["dst"] and got_dst == exp_dst
                    ok = ok and abs(r.f["volume"] - fr(vol)) <= fr(1e-9) * max(1, fr(vol))
                    det.update({"expected_dst": exp_dst, "observed_dst": got_dst, "expected_src_position": exp_src})
                ctx.check("C01.distribute_record_addresses_named_wells", ok, det)
                ctx.count("distribute_with_exclusions" if rs and rs[0].f["exclude"] else "distribute_block")
            if feeder.failed:
                stop = True
                break
            progmon.compare_state(ctx, "C01", case, w, interp, grid, op=sub, opi=opi)
        if stop:
            break
    if case.get("save_file"):
        _judge_saved_file(ctx, case, w)
    ctx.case(case, moved)
    if moved and grid:
        ctx.count("grid_programs")


def gates(stats, tier):
    c, f = stats["counters"], stats["features"]
    r = []
    need = [
        "rule:C01.volume_agreement",
        "rule:C01.composition_agreement",
        "rule:C01.aspirate_records_address_named_wells",
        "rule:C01.dispense_records_address_named_wells",
        "rule:C01.distribute_record_addresses_named_wells",
        "split_transfer",
        "unsplit_transfer",
        "op:distribute",
        "op:aspirate",
        "op:dispense",
        "composition_comparisons_grid",
        "dispense_without_composition",
    ]
    for k in need:
        if not c.get(k):
            r.append(f"never observed: {k}")
    if set(f.get("device", ())) != {"evo", "fluent"}:
        r.append("both devices not observed")
    if set(f.get("src_kind", ())) != {"plate", "trough"}:
        r.append("plate and trough sources not both observed")
    if set(f.get("max_volume_integer", ())) != {True, False} and set(f.get("max_volume_integer", ())) != {"True", "False"}:
        r.append("integer and non-integer max_volume not both observed")
    sp = stats["attach"].get("spy_calls", {})
    rejected = sum(v for k, v in c.items() if k.startswith("rejected:"))
    ops = sum(v for k, v in c.items() if k.startswith("op:"))
    if ops and rejected > 0.25 * ops:
        r.append(f"{rejected} of {ops} steered operations were rejected - the workload no longer exercises successful sequences")
    if stats["distinct_nontrivial"] < (50 if tier == "quick" else 1000):
        r.append("too few distinct non-trivial cases")
    return r
