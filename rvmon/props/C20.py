"""C20 - every labware the constructors accept is internally consistent.

The case is a constructor specification (class + arguments as written).  An independent classifier
decides from the arguments alone whether the specification is representable; if not, the real
constructor must raise ValueError; if it is and the constructor accepts it, the object is compared
with the geometry, layout and naming predicted from the specification.
"""
from __future__ import annotations

import math
import zlib

import numpy as np

from ..attach import ROWS, shape_of, to_nested
from ..core import dec, enc

ID = "C20"
TITLE = "Every labware the constructors accept is internally consistent"
LEVEL = "exploration"
TECHNIQUE = (
    "runtime monitoring: specification classifier + geometry/layout/naming oracle on every constructed "
    "Labware/Trough, ValueError oracle on every unrepresentable specification"
)
ATTACH = ()
RULE = (
    "cases = one constructor call Labware(...) / Trough(...): sampled geometries (rows 1..26, columns 1..120, "
    "virtual rows 1..26, also Labware(rows=1, virtual_rows=k)), limits (int/float, min 0 or positive), initial "
    "volumes as omitted / None / scalar / flat list / flat array / nested list / 2-D array (troughs: scalar / list / "
    "tuple / 1-D array), component or column names (omitted, partial, complete, shared, None entries), and "
    "specifications with exactly one fault (non-positive or non-integer size, rows or virtual rows 27..40, virtual "
    "rows on multi-row labware, negative / NaN / too large initial volume, name for an empty or unknown well, "
    "per-column list of wrong length, flat list of wrong length, invalid or NaN limits), plus a sweep over rows "
    "0..40 x selected column counts; a case is non-trivial when it is an accepted specification with more than one "
    "well or a specification that must be refused; distinct = distinct specification hashes"
)
ASSUMPTIONS = [
    "the classifier's reading of 'cannot be represented' is the list in the statement plus limits violating "
    "0 <= min_volume < max_volume (None, negative, reversed, equal, NaN); each faulty specification carries one fault",
    "a representable specification that the constructor refuses is not judged (the statement does not demand "
    "acceptance); it is counted and makes the run inconclusive",
    "not generated because the statement does not decide them: bool / numpy-integer / integer-valued float sizes, "
    "Trough(virtual_rows=None), infinite min_volume, 2-D initial volumes of a transposed shape, 2-D initial volumes "
    "for Trough, names for virtual (non-row-A) wells of a Labware with virtual_rows, non-string names",
    "default component names are not judged (only that there is exactly one 100 % component per non-empty well and "
    "that user-given names are used verbatim)",
]
HOOK_RULES = ()

NAN = float("nan")
INF = float("inf")

REJECT_RULE = {
    "size_nonpositive": "valueerror_for_nonpositive_size",
    "size_noninteger": "valueerror_for_noninteger_size",
    "rows_gt_26": "valueerror_for_more_rows_than_letters",
    "virtual_rows_on_multirow": "valueerror_for_virtual_rows_on_multirow",
    "iv_negative": "valueerror_for_negative_initial_volume",
    "iv_nan": "valueerror_for_nan_initial_volume",
    "iv_too_large": "valueerror_for_too_large_initial_volume",
    "iv_infinite": "valueerror_for_infinite_initial_volume",
    "name_empty_well": "valueerror_for_name_of_empty_well",
    "name_unknown_well": "valueerror_for_name_of_unknown_well",
    "percolumn_wrong_length": "valueerror_for_percolumn_list_of_wrong_length",
    "limit_none": "invalid_limits_not_accepted",
    "limit_nan": "invalid_limits_not_accepted",
    "min_negative": "invalid_limits_not_accepted",
    "max_not_above_min": "invalid_limits_not_accepted",
    "flat_wrong_length": "flat_list_of_wrong_length_not_accepted",
}
ACCEPT_RULES = (
    "wells_shape_is_virtual_or_real_rows_by_columns", "well_ids_are_letter_and_two_digit_column",
    "volumes_shape_is_real_rows_by_columns", "indices_map_exactly_the_ids_onto_the_real_grid",
    "n_rows_n_columns_shape_agree_with_wells", "initial_volumes_laid_out_as_given",
    "initial_volumes_finite_within_limits", "limits_ordered", "history_is_exactly_the_initial_state",
    "one_full_component_for_exactly_the_nonempty_wells", "given_names_used_verbatim",
)
WANT_REJECT = [
    "Labware:size_nonpositive:rows", "Labware:size_nonpositive:columns", "Labware:size_nonpositive:virtual_rows",
    "Trough:size_nonpositive:virtual_rows", "Trough:size_nonpositive:columns",
    "Labware:size_noninteger:rows", "Labware:size_noninteger:columns", "Labware:size_noninteger:virtual_rows",
    "Trough:size_noninteger:virtual_rows", "Trough:size_noninteger:columns",
    "Labware:rows_gt_26:rows", "Labware:rows_gt_26:virtual_rows", "Trough:rows_gt_26:virtual_rows",
    "Labware:virtual_rows_on_multirow",
    "Labware:iv_negative", "Trough:iv_negative", "Labware:iv_nan", "Trough:iv_nan",
    "Labware:iv_too_large", "Trough:iv_too_large",
    "Labware:name_empty_well", "Trough:name_empty_well", "Labware:name_unknown_well",
    "Trough:percolumn_wrong_length:initial_volumes", "Trough:percolumn_wrong_length:column_names",
    "Labware:flat_wrong_length",
    "Labware:limit_none", "Labware:limit_nan", "Labware:min_negative", "Labware:max_not_above_min",
    "Trough:limit_none", "Trough:limit_nan", "Trough:min_negative", "Trough:max_not_above_min",
]
WANT_LAYOUT = [
    "Labware:omitted", "Labware:none", "Labware:scalar", "Labware:flat_list", "Labware:flat_array",
    "Labware:nested_list", "Labware:array2d", "Trough:omitted", "Trough:scalar", "Trough:list", "Trough:tuple",
    "Trough:array1d",
]


def wid(r, c):
    return f"{ROWS[r]}{c + 1:02d}"


# ---------------------------------------------------------------------------------------------
# classifier / predictor (from the arguments alone)
# ---------------------------------------------------------------------------------------------
class Silent(Exception):
    """The statement does not decide this specification."""


def _size_fault(x):
    if isinstance(x, bool):
        raise Silent("bool size")
    if isinstance(x, int):
        return None if x >= 1 else "size_nonpositive"
    if isinstance(x, float) and math.isfinite(x) and x == int(x):
        raise Silent("integer-valued float size")
    return "size_noninteger"


def _isnum(x):
    # (numpy scalars - float32, float16, int64, uint8 ... - are numbers like any other: their exact value counts)
    return isinstance(x, (int, float, np.floating, np.integer)) and not isinstance(x, (bool, np.bool_))


def analyse(spec):
    """-> (faults, exp) ; exp = dict(R, C, V, vol (list of rows), names {(r,c): name}, layout) or None."""
    cls = spec["cls"]
    faults = []
    trough = cls == "Trough"
    cols = spec["columns"]
    if trough:
        rows = 1
        vr = spec["virtual_rows"]
        if vr is None:
            raise Silent("Trough(virtual_rows=None)")
    else:
        rows = spec["rows"]
        vr = spec.get("virtual_rows")
    sizes_ok = True
    if not trough:
        f = _size_fault(rows)
        if f:
            faults.append(f"{f}:rows")
            sizes_ok = False
        elif rows > 26:
            faults.append("rows_gt_26:rows")
    f = _size_fault(cols)
    if f:
        faults.append(f"{f}:columns")
        sizes_ok = False
    if vr is not None:
        f = _size_fault(vr)
        if f:
            faults.append(f"{f}:virtual_rows")
            sizes_ok = False
        elif vr > 26:
            faults.append("rows_gt_26:virtual_rows")
        if not trough and isinstance(rows, int) and rows >= 1 and rows != 1:
            faults.append("virtual_rows_on_multirow")
    # limits
    mn, mx = spec["min_volume"], spec["max_volume"]
    limits_ok = False
    if mn is None or mx is None:
        faults.append("limit_none")
    elif not (_isnum(mn) and _isnum(mx)):
        raise Silent("non-numeric limit")
    elif math.isnan(mn) or math.isnan(mx):
        faults.append("limit_nan")
    elif math.isinf(mn) or mx == -INF:
        raise Silent("infinite limit")
    elif mn < 0:
        faults.append("min_negative")
    elif mx <= mn:
        faults.append("max_not_above_min")
    else:
        limits_ok = True
    if not sizes_ok:
        return faults, None
    R, C = rows, cols
    # initial volumes
    layout = None
    vol = None
    if "initial_volumes" not in spec:
        layout = "omitted"
        vol = [[0.0] * C for _ in range(R)]
    else:
        iv = spec["initial_volumes"]
        if iv is None:
            if trough:
                raise Silent("Trough(initial_volumes=None)")
            layout = "none"
            vol = [[0.0] * C for _ in range(R)]
        elif _isnum(iv):
            layout = "scalar"
            vol = [[_f(iv)] * C for _ in range(R)]
        elif isinstance(iv, (list, tuple, np.ndarray)):
            nested = to_nested(iv)
            shp = shape_of(nested)
            kind = "array" if isinstance(iv, np.ndarray) else ("tuple" if isinstance(iv, tuple) else "list")
            if len(shp) == 1:
                flat = list(nested)
                if not all(_isnum(x) for x in flat):
                    raise Silent("non-numeric initial volume")
                if trough:
                    layout = {"array": "array1d", "tuple": "tuple", "list": "list"}[kind]
                    if len(flat) != C:
                        faults.append("percolumn_wrong_length:initial_volumes")
                    else:
                        vol = [[_f(x) for x in flat]]
                else:
                    layout = {"array": "flat_array", "tuple": "flat_tuple", "list": "flat_list"}[kind]
                    if len(flat) != R * C:
                        faults.append("flat_wrong_length")
                    else:
                        # row-major: element (r, c) is flat[r * C + c]
                        vol = [[_f(flat[r * C + c]) for c in range(C)] for r in range(R)]
            elif len(shp) == 2 and not trough and shp == (R, C):
                if not all(_isnum(x) for row in nested for x in row):
                    raise Silent("non-numeric initial volume")
                layout = "array2d" if kind == "array" else "nested_" + kind
                vol = [[_f(x) for x in row] for row in nested]
            else:
                raise Silent(f"initial volumes of shape {shp}")
        else:
            raise Silent("initial volumes of an undecided type")
    if vol is not None:
        flatv = [x for row in vol for x in row]
        if any(math.isnan(x) for x in flatv):
            faults.append("iv_nan")
        if any(x < 0 for x in flatv):
            faults.append("iv_negative")
        if limits_ok and any(x > mx for x in flatv):
            faults.append("iv_too_large")
        elif any(x == INF for x in flatv):
            faults.append("iv_infinite")  # "finite initial volumes": no upper limit does not make an infinite filling representable
    # names
    names = {}
    if "names" in spec and spec["names"] is not None and vol is not None:
        nm = spec["names"]
        if trough:
            if isinstance(nm, str):
                nm = [nm]
            if not isinstance(nm, (list, tuple)):
                raise Silent("column_names of an undecided type")
            if len(nm) != C:
                faults.append("percolumn_wrong_length:column_names")
            else:
                for c, n_ in enumerate(nm):
                    if n_ is None:
                        continue
                    if not isinstance(n_, str):
                        raise Silent("non-string name")
                    if vol[0][c] == 0:
                        faults.append("name_empty_well")
                    names[(0, c)] = n_
        else:
            if not isinstance(nm, dict):
                raise Silent("component_names of an undecided type")
            V = vr if (vr is not None and isinstance(vr, int) and vr >= 1 and R == 1) else None
            real = {wid(r, c): (r, c) for r in range(min(R, 26)) for c in range(C)}
            virtual = set() if V is None else {wid(v, c) for v in range(1, min(V, 26)) for c in range(C)}
            for k_, n_ in nm.items():
                if k_ in virtual:
                    raise Silent("name for a virtual well")
                if k_ not in real:
                    faults.append("name_unknown_well")
                    continue
                if n_ is None:
                    continue
                if not isinstance(n_, str):
                    raise Silent("non-string name")
                r, c = real[k_]
                if vol[r][c] == 0:
                    faults.append("name_empty_well")
                names[(r, c)] = n_
    faults = list(dict.fromkeys(faults))
    exp = None
    if not faults:
        exp = {"R": R, "C": C, "V": vr, "vol": vol, "names": names, "layout": layout}
    return faults, exp


def _key(cls, faults, exc):
    """Mechanism key of a must-reject specification that was accepted (exc None) or refused with the wrong class."""
    fs = set(faults)
    if fs and all(f.startswith("rows_gt_26:") for f in fs):
        # D9: more (virtual) rows than row letters: accepted with a 26-row id array, or a non-ValueError
        return "C20.rows_gt_26"
    if fs and fs <= {"iv_nan", "limit_nan"} and exc is None:
        return "C20.nonfinite_volume_or_limit"
    if fs and all(f.startswith("size_noninteger:") for f in fs) and isinstance(exc, TypeError):
        args = {f.split(":")[1] for f in fs}
        if args <= ({"virtual_rows", "columns"} if cls == "Trough" else {"virtual_rows"}):
            return "C20.trough_size_typeerror"
    return None


# ---------------------------------------------------------------------------------------------
# generator
# ---------------------------------------------------------------------------------------------
def n_cases(tier):
    return 40000 if tier == "quick" else 1000000


def _limits(rng):
    mn = rng.choice([0, 0, 0, 0.0, 5, 10, 20.5, 0.5, 100, rng.randint(0, 50)])
    span = rng.choice([1, 10, 100, 250.5, 1000, 1e5, 0.25, rng.randint(1, 5000), 0.1, 260.3, 99.99, 333.3, 0.7, 1e-3])
    mx = mn + span
    if rng.random() < 0.3 and float(mx) == int(mx):
        mx = int(mx)
    return mn, mx


def _value(rng, mn, mx, allow_zero=True):
    k = rng.random()
    if allow_zero and k < 0.25:
        return rng.choice([0, 0.0])
    if k < 0.35:
        return mx
    if k < 0.40:
        # tiny but positive: a non-empty well all the same
        v = rng.choice([1e-9, 1e-12, 5e-324, 2.5e-8, 1e-6])
        return v if v <= mx else mx
    if k < 0.6:
        v = rng.randint(1, max(1, int(mx)))
        return v if v <= mx else mx
    if k < 0.8:
        v = rng.randint(1, max(1, int(mx * 4))) / 4.0
        return v if v <= mx else mx
    v = rng.uniform(0, float(mx))
    return v if 0 < v <= mx else mx


def _geometry(rng, cls):
    """(rows, columns, virtual_rows or None) of a representable geometry."""
    k = rng.random()
    if cls == "Trough" or cls == "LabwareV":
        vr = rng.choice([1, 2, 3, 4, 6, 8, 8, 12, 16, 26, rng.randint(1, 26)])
        cols = rng.choice([1, 1, 2, 3, 4, 6, 12, rng.randint(1, 12)]) if k < 0.97 else rng.randint(13, 120)
        return 1, cols, vr
    if k < 0.05:
        return 1, 1, None
    if k < 0.15:
        return 1, rng.randint(2, 24), None
    if k < 0.25:
        return rng.randint(2, 26), 1, None
    if k < 0.65:
        return rng.randint(2, 4), rng.randint(2, 6), None
    if k < 0.72:
        return 8, 12, None
    if k < 0.74:
        return rng.choice([(16, 24), (26, 3), (26, 12), (4, 100), (2, 120), (3, 99)]) + (None,)
    if k < 0.75:
        return rng.randint(1, 26), rng.randint(100, 120), None
    return rng.randint(1, 26), rng.randint(1, 24), None


def _fill(rng, R, C, mn, mx):
    """R x C nested list of valid volumes; large geometries stay sparse."""
    n = R * C
    mode = rng.choice(["zeros", "full", "mixed", "mixed", "mixed", "nozero"])
    if n > 150 and mode in ("full", "nozero", "mixed"):
        mode = "sparse"
    if mode == "zeros":
        return [[0.0] * C for _ in range(R)], mode
    if mode == "full":
        return [[mx] * C for _ in range(R)], mode
    if mode == "sparse":
        vol = [[0.0] * C for _ in range(R)]
        for _ in range(rng.randint(1, 12)):
            vol[rng.randrange(R)][rng.randrange(C)] = _value(rng, mn, mx, allow_zero=False)
        return vol, mode
    vol = [[_value(rng, mn, mx, allow_zero=(mode == "mixed")) for _ in range(C)] for _ in range(R)]
    return vol, mode


def _as_layout(rng, cls, vol, R, C):
    """Present the volumes in one of the layouts; returns (present?, value)."""
    flat = [x for row in vol for x in row]
    uniform = all(x == flat[0] for x in flat)
    if cls == "Trough":
        opts = ["list", "list", "tuple", "array1d"]
        if uniform:
            opts += ["scalar", "scalar", "scalar"] + (["omitted"] * 2 if flat[0] == 0 else [])
        lay = rng.choice(opts)
        if lay == "omitted":
            return False, None
        if lay == "scalar":
            return True, _np_scalar(rng, flat[0])
        if lay == "tuple":
            return True, {"__tuple__": list(flat)}
        if lay == "array1d":
            return True, enc(np.array(flat, dtype=float if rng.random() > 0.2 else np.float32))
        return True, list(flat)
    opts = ["flat_list", "flat_list", "flat_array", "nested_list", "array2d", "array2d"]
    if uniform:
        opts += ["scalar", "scalar", "scalar"] + (["omitted", "omitted", "none"] if flat[0] == 0 else [])
    lay = rng.choice(opts)
    if lay == "omitted":
        return False, None
    if lay == "none":
        return True, None
    if lay == "scalar":
        return True, _np_scalar(rng, flat[0])
    if lay == "flat_list":
        return True, list(flat)
    if lay == "flat_array":
        return True, enc(np.array(flat, dtype=float if rng.random() > 0.2 else np.float32))
    if lay == "nested_list":
        return True, [list(row) for row in vol]
    return True, enc(np.array(vol, dtype=float if rng.random() > 0.2 else np.float32))


def _np_scalar(rng, x):
    """The one broadcast volume as the caller has it: a Python number, now and then a numpy scalar (encoded)."""
    r = rng.random()
    if r < 0.1:
        return {"__npscalar__": ["float32", float(np.float32(x))]}
    if r < 0.2:
        return {"__npscalar__": ["float64", float(x)]}
    if r < 0.3 and float(x) == int(x) and abs(x) < 2**31:
        return {"__npscalar__": ["int64", int(x)]}
    return x


_NAMEPOOL = ["water", "glucose", "NaOH", "stock A", "x", "medium.1", "p.A01", "A01", "Wasser/Öl", "lw.column_01"]


def _f(x):
    """float(x); a Python integer beyond the float range counts as +-infinity (it is larger than any limit)."""
    try:
        return float(x)
    except OverflowError:
        return INF if x > 0 else -INF


def _names(rng, cls, vol, R, C):
    """Valid names for the non-empty wells (or nothing)."""
    k = rng.random()
    if k < 0.35:
        return False, None
    if k < 0.42:
        return True, None
    nonempty = [(r, c) for r in range(R) for c in range(C) if vol[r][c] > 0]
    big = R * C > 150
    mode = rng.choice(["all", "some", "shared", "shared"]) if not big else "shared"
    pool = list(_NAMEPOOL)
    rng.shuffle(pool)

    if rng.random() < 0.08:
        pool[0] = ""

    def pick(i):
        if mode == "shared":
            return pool[i % 3]
        return f"{pool[i % len(pool)]}#{i}"

    if cls == "Trough":
        out = [None] * C
        for i, (r, c) in enumerate(nonempty):
            if mode == "some" and rng.random() < 0.5:
                continue
            out[c] = pick(i)
        if C == 1 and out[0] is not None and rng.random() < 0.4:
            return True, out[0]
        return True, ({"__tuple__": out} if rng.random() < 0.2 else out)
    out = {}
    for i, (r, c) in enumerate(nonempty):
        if mode == "some" and rng.random() < 0.5:
            continue
        out[wid(r, c)] = pick(i)
    if rng.random() < 0.3:
        # None entries are allowed everywhere, also for empty wells
        for _ in range(rng.randint(1, 3)):
            r, c = rng.randrange(R), rng.randrange(C)
            out.setdefault(wid(r, c), None)
    return True, out


def _valid(rng, cls=None, small=False):
    cls = cls or rng.choice(["Labware", "Labware", "Labware", "Trough", "Trough", "LabwareV"])
    R, C, V = _geometry(rng, cls)
    if small:
        if V is None:
            R, C = min(R, rng.randint(1, 4)), min(C, rng.randint(1, 5))
        else:
            C, V = min(C, rng.randint(1, 4)), min(V, 8)
    mn, mx = _limits(rng)
    vol, mode = _fill(rng, R, C, mn, mx)
    spec = {"cls": "Trough" if cls == "Trough" else "Labware"}
    if cls == "Trough":
        spec.update(virtual_rows=V, columns=C)
    else:
        spec.update(rows=R, columns=C)
        if cls == "LabwareV":
            spec["virtual_rows"] = V
        elif rng.random() < 0.1:
            spec["virtual_rows"] = None
    spec.update(min_volume=mn, max_volume=mx)
    if rng.random() < 0.25:
        # the labware's own label is free text
        spec["name"] = rng.choice(["Tris{pH8}", "buffer{1}", "wash}", "{", "50% EtOH", "a.b", "µ-plate", "%s", "plate 1", "x" * 32])
    present, iv = _as_layout(rng, spec["cls"], vol, R, C)
    if present:
        spec["initial_volumes"] = iv
    present, nm = _names(rng, spec["cls"], vol, R, C)
    if present:
        spec["names"] = nm
        if isinstance(nm, dict) and spec["cls"] == "Labware" and spec.get("virtual_rows") is None and R > 1 and rng.random() < 0.25:
            named = [k for k, v in nm.items() if v is not None]
            unnamed = [wid(r, c) for r in range(R) for c in range(C) if vol[r][c] > 0 and nm.get(wid(r, c)) is None]
            if named and unnamed:
                # "plate.B01" given for A01 while B01 has no name of its own: two wells of one component
                nm[rng.choice(named)] = f"{spec.get('name', 'lw')}.{rng.choice(unnamed)}"
    return spec, vol, (R, C, V)


FAULTS = [
    "size_nonpositive", "size_nonpositive", "size_noninteger", "size_noninteger", "rows_gt_26", "rows_gt_26",
    "virtual_rows_on_multirow", "iv_negative", "iv_negative", "iv_nan", "iv_nan", "iv_too_large", "iv_too_large",
    "iv_too_large", "name_empty_well", "name_empty_well", "name_unknown_well", "percolumn_wrong_length",
    "percolumn_wrong_length", "flat_wrong_length", "limits", "limits",
]


def _poke(rng, spec, vol, R, C, bad_of):
    """Replace one or all initial volumes by a bad value, keeping a randomly chosen layout."""
    trough = spec["cls"] == "Trough"
    how = rng.choice(["one", "one", "one", "all", "scalar"])
    vol = [list(row) for row in vol]
    if how == "scalar":
        spec["initial_volumes"] = bad_of(vol[0][0])
        return
    if how == "all":
        vol = [[bad_of(x) for x in row] for row in vol]
    else:
        r, c = rng.randrange(R), rng.randrange(C)
        vol[r][c] = bad_of(vol[r][c])
    flat = [x for row in vol for x in row]
    mxv = spec.get("max_volume")
    if (all(isinstance(x, (int, float)) and x == x and 0 <= x < 65536 and float(x).is_integer() for x in flat)
            and isinstance(mxv, (int, float)) and float(mxv).is_integer() and mxv < 65536 and rng.random() < 0.25):
        # the same numbers as an unsigned integer array (counts read from an instrument file) and an int limit
        spec["max_volume"] = int(mxv)
        if isinstance(spec.get("min_volume"), float) and spec["min_volume"].is_integer():
            spec["min_volume"] = int(spec["min_volume"])
        ints = [int(x) for x in flat]
        spec["initial_volumes"] = {"__ndu16__": ints if (trough or rng.random() < 0.5) else [ints[r * C:(r + 1) * C] for r in range(R)]}
        return
    beyond_float = any(isinstance(x, int) and abs(x) > 10**308 for x in flat)
    if beyond_float:
        # a Python integer that no float can hold: only containers of Python numbers can carry it
        if len(set(flat)) == 1 and rng.random() < 0.6:
            spec["initial_volumes"] = flat[0]  # the one volume for every well
        elif trough:
            spec["initial_volumes"] = list(flat) if rng.random() < 0.5 else {"__tuple__": flat}
        else:
            spec["initial_volumes"] = list(flat) if rng.random() < 0.5 else [list(row) for row in vol]
        return
    if trough:
        lay = rng.choice(["list", "tuple", "array1d"])
        spec["initial_volumes"] = (
            list(flat) if lay == "list" else {"__tuple__": flat} if lay == "tuple" else enc(np.array(flat, dtype=float))
        )
    else:
        lay = rng.choice(["flat_list", "flat_array", "nested_list", "array2d"])
        spec["initial_volumes"] = (
            list(flat) if lay == "flat_list" else enc(np.array(flat, dtype=float)) if lay == "flat_array"
            else [list(row) for row in vol] if lay == "nested_list" else enc(np.array(vol, dtype=float))
        )


def _faulty(rng):
    fault = rng.choice(FAULTS)
    cls = None
    if fault in ("virtual_rows_on_multirow", "name_unknown_well", "flat_wrong_length"):
        cls = "Labware"
    elif fault == "percolumn_wrong_length":
        cls = "Trough"
    spec, vol, (R, C, V) = _valid(rng, cls, small=True)
    trough = spec["cls"] == "Trough"
    mn, mx = spec["min_volume"], spec["max_volume"]
    if fault in ("size_nonpositive", "size_noninteger"):
        args = ["virtual_rows", "columns"] if trough else ["rows", "columns", "virtual_rows"]
        arg = rng.choice(args)
        if fault == "size_nonpositive":
            bad = rng.choice([0, 0, -1, -1, -rng.randint(2, 40)])
        else:
            bad = rng.choice([2.5, 2.5, "3", "3", 1.5, 0.5, -2.5, "A", 3.7])
            if arg in ("rows", "columns") and rng.random() < 0.3:
                bad = None
        if arg == "virtual_rows" and not trough:
            # keep rows == 1 so that the size is the only fault
            if spec["rows"] != 1:
                spec["rows"] = 1
                spec.pop("initial_volumes", None)
                spec.pop("names", None)
        spec[arg] = bad
        # arguments that depend on the geometry are dropped: the size is the only fault
        if rng.random() < 0.7:
            spec.pop("initial_volumes", None)
            spec.pop("names", None)
        elif "initial_volumes" in spec and not isinstance(spec["initial_volumes"], (int, float)):
            spec.pop("initial_volumes", None)
            spec.pop("names", None)
        elif "names" in spec:
            spec.pop("names", None)
    elif fault == "rows_gt_26":
        n = rng.randint(27, 40)
        keep_iv = spec.get("initial_volumes")
        spec.pop("names", None)
        spec.pop("initial_volumes", None)
        if trough or "virtual_rows" in spec and spec["virtual_rows"] is not None:
            spec["virtual_rows"] = n
        else:
            spec["rows"] = n
            spec["columns"] = min(C, 4)
        if isinstance(keep_iv, (int, float)) and rng.random() < 0.6:
            spec["initial_volumes"] = keep_iv
    elif fault == "virtual_rows_on_multirow":
        if spec["rows"] == 1:
            spec["rows"] = rng.randint(2, 8)
            spec.pop("initial_volumes", None)
            spec.pop("names", None)
        spec["virtual_rows"] = rng.choice([1, 2, 4, 8, spec["rows"], rng.randint(1, 26)])
    elif fault == "iv_negative":
        spec.pop("names", None)
        _poke(rng, spec, vol, R, C, lambda x: rng.choice([-1, -0.5, -1e-9, -float(x) if x else -2.0, -INF, -100]))
    elif fault == "iv_nan":
        spec.pop("names", None)
        _poke(rng, spec, vol, R, C, lambda x: NAN)
    elif fault == "iv_too_large":
        spec.pop("names", None)
        if rng.random() < 0.12:
            # "no upper limit": max_volume = inf is a limit above min_volume; an infinite filling is still not finite
            spec["max_volume"] = mx = INF
        _poke(rng, spec, vol, R, C, lambda x: rng.choice([mx + 1, mx * 2 + 1, mx + 0.25, math.nextafter(float(mx), INF), INF, 1e12, 10**30, 2**64, 10**400]))
    elif fault == "name_empty_well":
        # make sure there is an empty well and name it
        r, c = rng.randrange(R), rng.randrange(C)
        vol = [list(row) for row in vol]
        vol[r][c] = rng.choice([0, 0.0])
        flat = [x for row in vol for x in row]
        if trough:
            spec["initial_volumes"] = list(flat) if rng.random() < 0.7 else enc(np.array(flat, dtype=float))
            nm = [None] * C
            for cc in range(C):
                if vol[0][cc] > 0 and rng.random() < 0.5:
                    nm[cc] = f"n{cc}"
            nm[c] = rng.choice(_NAMEPOOL + [""])
            spec["names"] = nm[0] if C == 1 and rng.random() < 0.5 else nm
        else:
            spec["initial_volumes"] = list(flat) if rng.random() < 0.5 else [list(row) for row in vol]
            nm = {wid(rr, cc): f"n{rr}.{cc}" for rr in range(R) for cc in range(C) if vol[rr][cc] > 0 and rng.random() < 0.5}
            nm[wid(r, c)] = rng.choice(_NAMEPOOL + ["", ""])  # the empty string is a name like any other
            spec["names"] = nm
        if all(x == 0 for x in flat) and rng.random() < 0.5:
            spec.pop("initial_volumes")
            if rng.random() < 0.5:
                spec["initial_volumes"] = 0
    elif fault == "name_unknown_well":
        V_ = spec.get("virtual_rows")
        top = V_ if V_ else R
        cands = [wid(0, C), wid(0, C), wid(0, C + 5), "A1", "a01", "AA01", "A001", "01A", ""]
        if top < 26:
            cands += [wid(top, 0), wid(top, 0), wid(25, C - 1)]
        bad = rng.choice(cands)
        nm = dict(spec["names"]) if isinstance(spec.get("names"), dict) else {}
        nm[bad] = rng.choice(["x", "water", "lw.A01"])
        if rng.random() < 0.35:
            # several unknown keys, not necessarily of one type (an index pair, a running number, None)
            nm[rng.choice([wid(0, C + 1), (0, 1), 13, None, (R, C), "Z99"])] = "y"
        spec["names"] = nm
    elif fault == "percolumn_wrong_length":
        which = rng.choice(["initial_volumes", "column_names"])
        d = rng.choice([-1, 1, 1, 2, -C, C])
        n = max(0, C + d)
        if n == C:
            n = C + 1
        if which == "initial_volumes":
            v = _value(rng, mn, mx)
            lst = [v] * n
            spec["initial_volumes"] = rng.choice([lst, {"__tuple__": lst}, enc(np.array(lst, dtype=float))])
            spec.pop("names", None)
        else:
            v = _value(rng, mn, mx, allow_zero=False)
            spec["initial_volumes"] = rng.choice([v, [v] * C])
            lst = [rng.choice(_NAMEPOOL + [None]) for _ in range(n)]
            if n == 1 and C != 1 and lst[0] is not None and rng.random() < 0.5:
                lst = lst[0]
            spec["names"] = lst
    elif fault == "flat_wrong_length":
        n = R * C + rng.choice([-1, 1, 1, 2, C, -C, R])
        if n == R * C or n < 0:
            n = R * C + 1
        if n == 1 or n == 0:
            n = R * C + 2
        v = _value(rng, mn, mx)
        lst = [v] * n
        spec["initial_volumes"] = rng.choice([lst, enc(np.array(lst, dtype=float))])
        spec.pop("names", None)
    elif fault == "limits":
        k = rng.choice(["min_none", "max_none", "min_negative", "equal", "reversed", "min_nan", "max_nan", "both_nan"])
        spec.pop("names", None)
        spec.pop("initial_volumes", None)
        if rng.random() < 0.5:
            spec["initial_volumes"] = 0
        if k == "min_none":
            spec["min_volume"] = None
        elif k == "max_none":
            spec["max_volume"] = None
        elif k == "min_negative":
            spec["min_volume"] = rng.choice([-1, -0.5, -1e-9, -100])
        elif k == "equal":
            spec["max_volume"] = spec["min_volume"]
        elif k == "reversed":
            spec["min_volume"], spec["max_volume"] = mx, mn
        elif k == "min_nan":
            spec["min_volume"] = NAN
        elif k == "max_nan":
            spec["max_volume"] = NAN
        else:
            spec["min_volume"] = spec["max_volume"] = NAN
    spec["fault"] = fault
    return spec


def gen_case(rng, tier, index):
    if rng.random() < 0.58:
        spec, _, _ = _valid(rng)
        return enc(spec)
    return enc(_faulty(rng))


# ---------------------------------------------------------------------------------------------
# execution + judgement
# ---------------------------------------------------------------------------------------------
def _construct(spec):
    import robotools

    kw = {"min_volume": spec["min_volume"], "max_volume": spec["max_volume"]}
    if "initial_volumes" in spec:
        kw["initial_volumes"] = spec["initial_volumes"]
    if spec["cls"] == "Trough":
        if "names" in spec:
            kw["column_names"] = spec["names"]
        return robotools.Trough(spec.get("name", "lw"), spec["virtual_rows"], spec["columns"], **kw)
    if "names" in spec:
        kw["component_names"] = spec["names"]
    if "virtual_rows" in spec:
        kw["virtual_rows"] = spec["virtual_rows"]
    return robotools.Labware(spec.get("name", "lw"), spec["rows"], spec["columns"], **kw)


def _summary(lw):
    try:
        return {
            "wells.shape": list(np.shape(lw.wells)), "volumes.shape": list(np.shape(lw.volumes)),
            "n_indices": len(lw.indices), "min_volume": lw.min_volume, "max_volume": lw.max_volume,
            "volumes": lw.volumes.tolist() if lw.volumes.size <= 64 else "...",
            "composition": {k: (v.tolist() if v.size <= 64 else "...") for k, v in list(lw.composition.items())[:8]},
        }
    except Exception as e:  # pragma: no cover
        return {"summary_error": repr(e)}


def run_case(ctx, case):
    spec = {k: dec(v) for k, v in case.items() if k not in ("index", "fault", "x")}
    cls = spec["cls"]
    try:
        faults, exp = analyse(spec)
    except Silent as e:
        ctx.count("undecided_specification")
        ctx.feature("undecided", str(e))
        ctx.case(case, False)
        return
    lw, exc = None, None
    try:
        lw = _construct(spec)
    except Exception as e:  # observed
        exc = e
    det = lambda: {"specification": {k: v for k, v in case.items() if k not in ("index",)}, "faults": faults,
                   "raised": repr(exc), "object": _summary(lw) if lw is not None else None}
    if faults:
        ctx.case(case, True)
        for f in faults:
            ctx.count(f"reject_class:{cls}:{f}")
        base = faults[0].split(":")[0]
        rule = REJECT_RULE[base]
        key = _key(cls, faults, exc)
        if exc is not None:
            ctx.feature("refusal_exception:" + base, type(exc).__name__)
        if base in ("flat_wrong_length", "limit_none", "limit_nan", "min_negative", "max_not_above_min"):
            # these must not be accepted (an accepted labware has 0 <= min_volume < max_volume), but the
            # statement's list of ValueError cases does not name them: any exception counts
            ok = exc is not None
        else:
            ok = isinstance(exc, ValueError)
        ctx.check(rule, ok, det, key=key)
        return
    # representable specification
    R, C, V = exp["R"], exp["C"], exp["V"]
    multi = R * C > 1
    ctx.case(case, multi and exc is None)
    if not ctx.check("representable_specification_is_constructed", exc is None, det):
        ctx.count(f"representable_refused:{cls}:{exp['layout']}")
        ctx.feature("representable_refused_with", f"{type(exc).__name__}: {str(exc)[:80]}")
        return
    # the caller may use the same `component_names` mapping for a second labware (a layout shared by a plate
    # and its replica): what the constructor did with it must not make that second, equally valid
    # specification unrepresentable
    nm = spec.get("names")
    if isinstance(nm, dict) and nm and cls == "Labware" and exp["V"] is None and zlib.crc32(repr(sorted(nm)).encode()) % 3 == 0:
        import robotools

        # (which wells the CALLER named is read from the case, not from the mapping the constructor has seen)
        keep = {k for k, v in (dec(case).get("names") or {}).items() if v is not None}
        init2 = np.zeros((R, C))
        for k in keep:
            r_, c_ = ROWS.index(k[0]), int(k[1:]) - 1
            if 0 <= r_ < R and 0 <= c_ < C:
                init2[r_, c_] = min(1.0, float(spec["max_volume"]))
        exc2 = None
        try:
            robotools.Labware("second", spec["rows"], spec["columns"], min_volume=spec["min_volume"], max_volume=spec["max_volume"],
                              initial_volumes=init2, component_names=nm)
        except Exception as e:
            exc2 = e
        ctx.count("names_mapping_reused_for_a_second_labware")
        ctx.check("representable_specification_is_constructed", exc2 is None,
                  lambda: dict(det(), second_labware_initial=init2.tolist(), second_raised=repr(exc2)))
    ctx.count(f"layout_accepted:{cls}:{exp['layout']}")
    ctx.count("accepted")
    if multi:
        ctx.count("accepted_multiwell")
    if V is not None:
        ctx.count("accepted_with_virtual_rows")
    ctx.feature("rows", R)
    ctx.feature("virtual_rows", V)
    ctx.feature("columns_bucket", "1" if C == 1 else "2-12" if C <= 12 else "13-99" if C < 100 else "100-120")
    vis = V if V is not None else R
    wells = lw.wells
    ok_shape = isinstance(wells, np.ndarray) and wells.shape == (vis, C)
    ctx.check("wells_shape_is_virtual_or_real_rows_by_columns", ok_shape, det)
    if ok_shape:
        good = all(wells[r, c] == wid(r, c) for r in range(vis) for c in range(C))
        ctx.check("well_ids_are_letter_and_two_digit_column", good, det)
    vols = lw.volumes
    ok_v = isinstance(vols, np.ndarray) and vols.shape == (R, C)
    ctx.check("volumes_shape_is_real_rows_by_columns", ok_v, det)
    want_idx = {wid(r, c): ((0, c) if V is not None else (r, c)) for r in range(vis) for c in range(C)}
    idx = lw.indices
    same = isinstance(idx, dict) and set(idx) == set(want_idx) and all(
        tuple(idx[k]) == want_idx[k] for k in want_idx
    )
    ctx.check("indices_map_exactly_the_ids_onto_the_real_grid", same, det)
    ctx.check(
        "n_rows_n_columns_shape_agree_with_wells",
        lw.n_rows == vis and lw.n_columns == C and tuple(lw.shape) == (vis, C) and tuple(lw.shape) == tuple(np.shape(wells)),
        det,
    )
    expv = np.array(exp["vol"], dtype=float).reshape((R, C))
    if ok_v:
        ctx.check("initial_volumes_laid_out_as_given", bool(np.array_equal(vols, expv)), det)
        fin = bool(np.all(np.isfinite(vols)) and np.all(vols >= 0) and np.all(vols <= lw.max_volume))
        ctx.check("initial_volumes_finite_within_limits", fin, det)
    try:
        lim = bool(0 <= lw.min_volume < lw.max_volume)
    except Exception:
        lim = False
    ctx.check("limits_ordered", lim, det)
    hist = lw.history
    okh = (
        isinstance(hist, list) and len(hist) == 1 and hist[0][0] == "initial"
        and np.shape(hist[0][1]) == (R, C) and bool(np.array_equal(np.asarray(hist[0][1], dtype=float), expv))
    )
    # the parallel private lists behind ``history`` (zip would hide a surplus entry in one of them)
    for attr in ("_history", "_labels"):
        if isinstance(getattr(lw, attr, None), list):
            okh = okh and len(getattr(lw, attr)) == 1
    ctx.check("history_is_exactly_the_initial_state", okh, det)
    comp = lw.composition
    okc = isinstance(comp, dict) and all(isinstance(a, np.ndarray) and a.shape == (R, C) for a in comp.values())
    if okc:
        nonempty = expv > 0
        if comp:
            S = np.stack([np.asarray(a, dtype=float) for a in comp.values()])
            ones = (S == 1.0).sum(axis=0)
            nonzero = (S != 0).sum(axis=0)
        else:
            ones = nonzero = np.zeros((R, C), dtype=int)
        okc = bool(np.array_equal(ones, nonempty.astype(int)) and np.array_equal(nonzero, nonempty.astype(int)))
    ctx.check("one_full_component_for_exactly_the_nonempty_wells", okc, det)
    if exp["names"]:
        ctx.count("accepted_with_given_names")
        okn = isinstance(comp, dict) and all(
            n_ in comp and np.shape(comp[n_]) == (R, C) and comp[n_][r, c] == 1.0 for (r, c), n_ in exp["names"].items()
        )
        ctx.check("given_names_used_verbatim", okn, det)
    iv = spec.get("initial_volumes")
    if isinstance(iv, np.ndarray) and iv.size and ok_v:
        # The array handed in stays the CALLER's: a twin built from the very same array, liquid added to the
        # first labware, and the caller re-using its array afterwards must leave what each constructed labware
        # reports as its initial state exactly "as given".
        ctx.count("caller_array_kept_and_reused")
        twin, exc3 = None, None
        try:
            twin = _construct(spec)
        except Exception as e:
            exc3 = e
        ctx.check("representable_specification_is_constructed", exc3 is None,
                  lambda: dict(det(), twin_from_same_array_raised=repr(exc3)))
        given = np.array(iv, dtype=float, copy=True)
        booked = None
        try:
            free = np.argwhere(expv + 1e-3 <= float(spec["max_volume"]))
            if len(free):
                r_, c_ = (int(x) for x in free[0])
                w_ = wid(r_, c_)
                lw.add(w_, 1e-3 if float(spec["max_volume"]) - expv[r_, c_] < 1 else 0.5)
                booked = (r_, c_)
                ctx.count("first_labware_operated_on")
        except Exception:
            booked = None
        ctx.check("caller_array_not_written_by_the_labware", bool(np.array_equal(np.asarray(iv, dtype=float), given)),
                  lambda: dict(det(), caller_array_after=np.asarray(iv).tolist()[:32], caller_array_before=given.tolist()[:32]))
        if twin is not None and np.shape(twin.volumes) == (R, C):
            ctx.check("initial_volumes_laid_out_as_given", bool(np.array_equal(twin.volumes, expv)),
                      lambda: dict(det(), twin_volumes=twin.volumes.tolist()[:8], note="twin built from the same caller array; the first labware received liquid"))
        if iv.flags.writeable:
            iv[...] = 0 if float(np.max(given)) > 0 else min(1.0, float(spec["max_volume"]))
            ctx.count("caller_array_overwritten_after_construction")
            for which, obj in (("first", lw), ("twin", twin)):
                if obj is None:
                    continue
                want = expv.copy()
                if which == "first" and booked is not None:
                    want[booked] = obj.volumes[booked]  # the booked well is judged elsewhere (C02/C04)
                h0 = obj.history[0][1] if obj.history else None
                ctx.check("initial_volumes_laid_out_as_given",
                          bool(np.array_equal(obj.volumes, want)) and h0 is not None and bool(np.array_equal(np.asarray(h0, dtype=float), expv)),
                          lambda which=which, obj=obj: dict(det(), labware=which, volumes_now=obj.volumes.tolist()[:8],
                                                            note="the caller overwrote its own array after construction"))
    if (R * 7 + C) % 4 == 0:
        # this labware is not needed any more: the caller re-uses what it exposes (aliases added to the index map,
        # retired wells deleted, the ID array blanked) - labware constructed later must not notice
        try:
            for dct in (lw.indices, getattr(lw, "positions", None)):
                if isinstance(dct, dict) and dct:
                    k0 = next(iter(dct))
                    dct["A1"] = dct[k0]
                    del dct[k0]
            if isinstance(lw.wells, np.ndarray) and lw.wells.size and lw.wells.flags.writeable:
                lw.wells[...] = "ZZ9"
            ctx.count("discarded_labware_overwritten")
        except Exception:
            pass


# ---------------------------------------------------------------------------------------------
# enumerated part: size sweep
# ---------------------------------------------------------------------------------------------
def extra(ctx):
    n = 0
    i = 0
    for rows in range(0, 41):
        for cols in (0, 1, 2, 3, 12, 99, 100, 120):
            i += 1
            if i % ctx.nshards != ctx.shard:
                continue
            for iv in (None, 0, 1.5):
                if iv == 1.5 and rows * cols > 200:
                    continue
                for cls in ("Labware", "Trough", "LabwareV"):
                    if cls == "Labware":
                        spec = {"cls": "Labware", "rows": rows, "columns": cols}
                    elif cls == "Trough":
                        spec = {"cls": "Trough", "virtual_rows": rows, "columns": cols}
                    else:
                        spec = {"cls": "Labware", "rows": 1, "columns": cols, "virtual_rows": rows}
                    spec.update(min_volume=0, max_volume=10, x="sweep")
                    if iv is not None:
                        spec["initial_volumes"] = iv
                    ctx.current_case = spec
                    run_case(ctx, spec)
                    n += 1
    ctx.count("size_sweep_constructions", n)
    ctx.current_case = None


# ---------------------------------------------------------------------------------------------
# gates
# ---------------------------------------------------------------------------------------------
def gates(stats, tier):
    c = stats["counters"]
    r = []
    for rule in ACCEPT_RULES:
        if not c.get("rule:" + rule):
            r.append(f"deciding rule never evaluated: {rule}")
    for rule in sorted(set(REJECT_RULE.values())):
        if not c.get("rule:" + rule):
            r.append(f"deciding rule never evaluated: {rule}")
    for k in WANT_REJECT:
        if not c.get("reject_class:" + k):
            r.append(f"must-reject class never observed: {k}")
    for k in WANT_LAYOUT:
        if not c.get("layout_accepted:" + k):
            r.append(f"initial-volume layout never observed on an accepted specification: {k}")
    refused = {k: v for k, v in c.items() if k.startswith("representable_refused:")}
    if refused:
        r.append(f"representable specifications were refused (not judged): {refused}")
    for k in ("accepted_multiwell", "accepted_with_virtual_rows", "accepted_with_given_names"):
        if not c.get(k):
            r.append(f"never observed: {k}")
    want_sweep = 41 * 8 * 3 * 3 - sum(3 for rows in range(41) for cols in (0, 1, 2, 3, 12, 99, 100, 120) if rows * cols > 200)
    if c.get("size_sweep_constructions", 0) != want_sweep:
        r.append(f"size sweep incomplete: {c.get('size_sweep_constructions', 0)} of {want_sweep}")
    rows_seen = set(stats["features"].get("rows", ()))
    if not {1, 2, 8, 26} <= rows_seen:
        r.append("accepted geometries with 1, 2, 8 and 26 rows not all observed")
    if "100-120" not in set(stats["features"].get("columns_bucket", ())):
        r.append("no accepted geometry with >= 100 columns observed")
    if c.get("undecided_specification", 0) > 0.01 * max(1, stats["evaluations"]):
        r.append(f"too many undecided specifications: {c.get('undecided_specification')}")
    if stats["distinct_nontrivial"] < (50 if tier == "quick" else 1000):
        r.append("too few distinct non-trivial cases")
    return r
