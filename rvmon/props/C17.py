"""C17 - saving writes exactly the records, one per line, replacing earlier content.

Oracle: after ``save(path)`` / after leaving the ``with`` block of a worklist created with a file
path, the bytes on disk equal ``"\\r\\n".join(records).encode("latin-1")`` (empty list <-> empty
file): no trailing line break, no residue of an earlier file of the same name, and
``bytes.decode("latin-1").split("\\r\\n") == records``.  ``str(worklist) == "\\n".join(records)``;
names without ``.gwl`` raise and create nothing; ``__enter__`` empties the worklist; the file is
also written when the block is left by an exception (which propagates).  An audit hook
(``sys.addaudithook``) records every file-system event below the per-process scratch directory:
each save must have opened the target for writing and touched no other path.

The record lists are built through the real API (every record type, Latin-1 text); the expected
bytes are computed from the record list the worklist holds at the moment of saving.
"""
from __future__ import annotations

import atexit
import os
import shutil
from pathlib import Path

from .. import attach, env
from ..gwl import GrammarError, parse

ID = "C17"
TITLE = "Saving writes exactly the records, one per line, replacing earlier content"
LEVEL = "exploration"
TECHNIQUE = (
    "runtime monitoring: byte oracle on the written file (CRLF join, Latin-1, no residue), read-back, str(), "
    "audit-hook trace of the file-system events of every save"
)
ATTACH = ("audit",)
RULE = (
    "cases = one worklist (BaseWorklist / EvoWorklist / FluentWorklist, DiTi mode on/off) filled through the real API "
    "(comment with Latin-1 text, wash, flush, commit, decontaminate, set_diti, aspirate_well, dispense_well, "
    "reagent_distribution, transfer, evo_wash / evo_aspirate / evo_dispense; 0, 1 or many records) and saved in one of "
    "the modes explicit save, save twice (with records added in between), with-block, with-block left by an exception, "
    "with-block on a worklist that already holds records, with-block followed by an explicit save, refused file name "
    "(save and with-block) - crossed with a pre-existing file that is absent / longer / shorter / identical and the "
    "path given as str or pathlib.Path; plus the enumerated cross product class x mode x pre-existing x path type x "
    "length class. A case is non-trivial when >= 2 records are saved or a file of the same name exists before the "
    "save; distinct = distinct hashes of the case inputs"
)
ASSUMPTIONS = [
    "the expected bytes are derived from the record list held by the worklist when the save happens (the records "
    "themselves are C09's business); records contain no CR/LF (the generator does not produce such text)",
    "characters outside Latin-1, upper-case extensions (x.GWL), relative paths and non-ASCII "
    "file names are not generated: the statement does not decide them",
    "durability / crash consistency of the file system is not part of the property",
    "the audit hook sees the CPython-level events open / os.remove / os.rename / os.truncate / os.mkdir / os.rmdir / "
    "os.chmod below the scratch directory",
]

WRITE_FLAGS = os.O_WRONLY | os.O_RDWR
CLASSES = ("base", "evo", "fluent")
MODES = ("save", "save_twice", "with", "with_exc", "with_preloaded", "with_then_save", "badname_save", "badname_with")
PRES = ("absent", "longer", "shorter", "same")
GOOD_NAMES = ("wl.gwl", "a b.gwl", "x.y.gwl", "w.gwl", "worklist-01_final.gwl")
BAD_NAMES = ("wl.txt", "wl", "wlgwl", "wl.gw", "wl.csv", "gwl", "wl.g.w.l", "wl.gwl_"[:2] + ".lwg",
             # ".gwl" occurs in the name but is not its extension
             "wl.gwl.txt", "wl.gwlx", "notes.gwl_old.csv", "wl.gwl.bak",
             # something follows the extension (a line feed pasted along with the name, a blank)
             "wl.gwl\n", "wl.gwl ", "wl.gwl\t")
# printable Latin-1 without ';' (field separator), CR/LF and the no-break space (stripped by comment())
ALPHA = "abcdefgxyzABCXYZ0123456789 _-.,:()[]%/+*#=<>!?'\"" + "µäöüÄÖÜßÿéèêñçøåÅæ°±²³¼½¾×÷¡¿£¥§©®ª«»¬¶·¸¹º¤¦¨¯´ÐÞþðÿ"


class _Boom(Exception):
    pass


# ---------------------------------------------------------------------------------------------
# scratch directory (per process, below /verif/.work/C17)
# ---------------------------------------------------------------------------------------------
_dir = {"path": None}


def _scratch() -> Path:
    att = attach.current()
    if _dir["path"] is None or not _dir["path"].is_dir():
        p = env.workdir("C17") / str(os.getpid())
        p.mkdir(parents=True, exist_ok=True)
        _dir["path"] = p
        atexit.register(_remove_scratch, p)
    if att is not None:
        att.fs_prefix = str(_dir["path"]) + os.sep
    return _dir["path"]


def _remove_scratch(p: Path):
    shutil.rmtree(str(p), ignore_errors=True)
    try:
        os.rmdir(p.parent)  # succeeds only when no other shard is using it
    except OSError:
        pass


def _cleanup_dir(base: Path):
    for name in os.listdir(base):
        q = base / name
        try:
            if q.is_dir():
                shutil.rmtree(q, ignore_errors=True)
            else:
                q.unlink()
        except OSError:
            pass


# ---------------------------------------------------------------------------------------------
# generation
# ---------------------------------------------------------------------------------------------
def _text(rng, lo=1, hi=24):
    return "".join(rng.choice(ALPHA) for _ in range(rng.randint(lo, hi)))


def _label(rng):
    return rng.choice(["Plate", "Trough_1", "MTP-96", "µPlate", "Würfel 3", "S", "D" * 32, _text(rng, 1, 12).strip() or "L"])


def _gen_op(rng, cls, diti, prev):
    kinds = ["comment", "comment", "comment", "wash", "flush", "commit", "aspirate_well", "aspirate_well",
             "dispense_well", "dispense_well", "reagent_distribution"]
    if not diti:
        kinds.append("decontaminate")
    if prev in (None, "commit"):
        kinds += ["set_diti", "set_diti", "set_diti"]
    if cls != "base":
        kinds += ["transfer", "transfer"]
    if cls == "evo":
        kinds += ["evo_wash", "evo_aspirate", "evo_dispense"]
    k = rng.choice(kinds)
    if k == "comment":
        t = _text(rng)
        if rng.random() < 0.15:
            t = t + "\n" + _text(rng) + ("\n" + _text(rng) if rng.random() < 0.3 else "")
        if rng.random() < 0.3:
            t = rng.choice(["µL", "50 µl Säure", "ÿ", "ä", "Größe ±5 %", "¼ Vol. × 2", "naïve café"]) + " " + t
        return {"op": "comment", "text": t}
    if k == "wash":
        return {"op": "wash", "scheme": rng.randint(1, 4)}
    if k in ("flush", "commit", "decontaminate"):
        return {"op": k}
    if k == "set_diti":
        return {"op": "set_diti", "index": rng.randint(1, 9)}
    if k in ("aspirate_well", "dispense_well"):
        kw = {}
        if rng.random() < 0.5:
            kw["liquid_class"] = rng.choice(["Water", "Wässrig µ", "DMSO free", _text(rng, 1, 16)])
        if rng.random() < 0.4:
            kw["tip"] = rng.choice([1, 4, 8, [1, 2], [3, 8, 5]])
        if rng.random() < 0.3:
            kw["rack_id"] = _text(rng, 1, 10)
        if rng.random() < 0.3:
            kw["tube_id"] = _text(rng, 1, 10)
        if rng.random() < 0.3:
            kw["rack_type"] = rng.choice(["96 Well Microplate", "Trough 100ml", _text(rng, 1, 20)])
        if rng.random() < 0.2:
            kw["forced_rack_type"] = _text(rng, 1, 12)
        vol = rng.choice([rng.randint(0, 900), round(rng.uniform(0, 900), 2), rng.uniform(0, 900)])
        return {"op": k, "label": _label(rng), "position": rng.randint(1, 384), "volume": vol, "kw": kw}
    if k == "reagent_distribution":
        d0 = rng.randint(1, 90)
        d1 = rng.randint(d0, 96)
        excl = sorted(rng.sample(range(d0, d1 + 1), k=min(d1 - d0 + 1, rng.choice([0, 0, 1, 3]))))
        return {"op": "reagent_distribution", "src": _label(rng), "s0": 1, "s1": 8, "dst": _label(rng), "d0": d0,
                "d1": d1, "volume": rng.choice([50, 12.5, 100.25, 7]), "multi_disp": rng.randint(1, 12),
                "diti_reuse": rng.randint(1, 4), "exclude": excl,
                "liquid_class": rng.choice(["", "Water", "Öl µ"]),
                "direction": rng.choice(["left_to_right", "right_to_left"])}
    if k == "transfer":
        n = rng.randint(1, 5)
        col = rng.randint(1, 12)
        return {"op": "transfer", "sw": [f"{'ABCDEFGH'[i]}{col:02d}" for i in range(n)],
                "dw": [f"{'ABCDEFGH'[i]}{rng.randint(1, 12):02d}" for i in range(n)],
                "vol": [rng.choice([10, 25.5, 100, 1200, 0.37]) for _ in range(n)],
                "label": rng.choice([None, "Übertrag µ", "t1"]), "wash": rng.choice([1, 2, "flush", "reuse"])}
    if k == "evo_wash":
        tips = sorted(rng.sample(range(1, 9), k=rng.randint(1, 8)))
        return {"op": "evo_wash", "tips": tips, "waste": [rng.randint(1, 67), rng.randint(1, 128)],
                "cleaner": [rng.randint(1, 67), rng.randint(1, 128)]}
    # evo_aspirate / evo_dispense: n ascending wells of one column, n ascending tips
    n = rng.randint(1, 8)
    rows = sorted(rng.sample(range(8), k=n))
    col = rng.randint(1, 12)
    tips = sorted(rng.sample(range(1, 9), k=n))
    return {"op": k, "wells": [f"{'ABCDEFGH'[r]}{col:02d}" for r in rows], "pos": [rng.randint(1, 67), rng.randint(1, 127)],
            "tips": tips, "vol": [rng.choice([10, 20.5, 100]) for _ in range(n)],
            "lc": rng.choice(["Water", "Wasser µ"]), "label": rng.choice([None, "evo-op"])}


def _gen_ops(rng, cls, diti, n):
    ops, prev = [], None
    for _ in range(n):
        op = _gen_op(rng, cls, diti, prev)
        ops.append(op)
        prev = op["op"]
    return ops


def n_cases(tier):
    return 2700 if tier == "quick" else 95000


def gen_case(rng, tier, index):
    cls = rng.choice(CLASSES)
    diti = rng.random() < 0.3
    mode = rng.choice(["save", "save", "save_twice", "with", "with", "with_exc", "with_exc", "with_preloaded",
                       "with_then_save", "badname_save", "badname_with", "with_twice", "save_inside_block"])
    n = rng.choice([0, 1, 1, 2, 3, 5, 8, 12, 20, 40, 100 if rng.random() < 0.3 else 30])
    if rng.random() < 0.03 and mode in ("save", "with", "with_exc", "save_twice"):
        # long worklists (block / buffer boundaries of a chunked writer): 1000..5000 records
        n = rng.choice([999, 1000, 1001, 1024, 1500, 2048, 2500, 4097, 5000])
    pre = rng.choice(["absent", "longer", "longer", "shorter", "shorter", "same", "same_lf", "same_cr"])
    if n == 0 and pre == "shorter":
        pre = "longer"
    case = {
        "cls": cls, "diti_mode": diti, "mode": mode, "ops": _gen_ops(rng, cls, diti, n), "pre": pre,
        "pre_fill": rng.choice(["records", "junk", "lf_lines"]), "pre_extra": rng.choice([1, 2, 7, 50, 400, 5000]),
        "path_kind": rng.choice(["str", "path", "str", "path", "relative"]),
        "name": rng.choice(BAD_NAMES if mode.startswith("badname") else GOOD_NAMES),
    }
    if case["path_kind"] == "relative" and not mode.startswith("badname") and rng.random() < 0.3:
        # bare names that begin with a character the shell / pathlib give a meaning to elsewhere
        case["name"] = rng.choice(["~scratch.gwl", "~$plan.gwl", "-out.gwl", "#1.gwl", "$HOME.gwl"])
    if mode == "save_twice":
        case["ops2"] = _gen_ops(rng, cls, diti, rng.choice([0, 0, 1, 3, 10]))
    if mode == "with_preloaded":
        case["ops_pre"] = _gen_ops(rng, cls, diti, rng.choice([1, 2, 5, 50]))
    if mode == "with_exc":
        case["exc_kind"] = rng.choice(["custom", "custom", "api"])
    if mode == "with_twice":
        case["second"] = rng.choice(["same_count", "same_count", "other_count", "identical"])
        case["between"] = rng.choice(["nothing", "nothing", "foreign_longer", "deleted"])
    if mode == "save_inside_block":
        case["then"] = rng.choice(["replace_last", "replace_last", "append", "nothing"])
    return case


# ---------------------------------------------------------------------------------------------
# building worklists through the real API
# ---------------------------------------------------------------------------------------------
class CannotCreate(Exception):
    """A worklist with a legal .gwl file name could not even be constructed."""


class _Bench:
    """Worklist + labware of one build."""

    def __init__(self, case, filepath=None):
        import robotools

        cls = {"base": robotools.BaseWorklist, "evo": robotools.EvoWorklist, "fluent": robotools.FluentWorklist}[case["cls"]]
        try:
            self.wl = cls(filepath, max_volume=950, auto_split=True, diti_mode=bool(case.get("diti_mode")))
        except Exception as e:
            if filepath is not None and not str(case.get("mode", "")).startswith("badname"):
                raise CannotCreate(repr(e)) from e
            raise
        self.src = robotools.Labware("SrcPlate", 8, 12, min_volume=0, max_volume=1e7, initial_volumes=5e6)
        self.dst = robotools.Labware("DstPlate", 8, 12, min_volume=0, max_volume=1e7, initial_volumes=1e3)


def _apply(ctx, b, op):
    wl = b.wl
    k = op["op"]
    try:
        if k == "comment":
            wl.comment(op["text"])
        elif k == "wash":
            wl.wash(op["scheme"])
        elif k == "flush":
            wl.flush()
        elif k == "commit":
            wl.commit()
        elif k == "decontaminate":
            wl.decontaminate()
        elif k == "set_diti":
            wl.set_diti(op["index"])
        elif k == "aspirate_well":
            wl.aspirate_well(op["label"], op["position"], op["volume"], **op.get("kw", {}))
        elif k == "dispense_well":
            wl.dispense_well(op["label"], op["position"], op["volume"], **op.get("kw", {}))
        elif k == "reagent_distribution":
            wl.reagent_distribution(op["src"], op["s0"], op["s1"], op["dst"], op["d0"], op["d1"], volume=op["volume"],
                                    multi_disp=op["multi_disp"], diti_reuse=op["diti_reuse"],
                                    exclude_wells=op["exclude"], liquid_class=op["liquid_class"],
                                    direction=op["direction"])
        elif k == "transfer":
            wl.transfer(b.src, op["sw"], b.dst, op["dw"], op["vol"], label=op["label"], wash_scheme=op["wash"])
        elif k == "evo_wash":
            wl.evo_wash(tips=op["tips"], waste_location=tuple(op["waste"]), cleaner_location=tuple(op["cleaner"]))
        elif k == "evo_aspirate":
            wl.evo_aspirate(b.src, op["wells"], tuple(op["pos"]), op["tips"], op["vol"], op["lc"], label=op["label"])
        elif k == "evo_dispense":
            wl.evo_dispense(b.dst, op["wells"], tuple(op["pos"]), op["tips"], op["vol"], op["lc"], label=op["label"])
        else:
            raise ValueError(f"unknown op {k}")
    except _Boom:
        raise
    except Exception as e:  # refused by the API (e.g. set_diti not after a break): simply no record
        ctx.count("op_refused:" + k + ":" + type(e).__name__)


def _fill(ctx, b, ops):
    for op in ops:
        _apply(ctx, b, op)


def _preview(ctx, case, keys=("ops",)):
    """Record list a twin worklist (no file path) produces for the same operations."""
    b = _Bench(case)
    for key in keys:
        _fill(ctx, b, case.get(key, []))
    return list(b.wl)


def _expected(records):
    return "\r\n".join(records).encode("latin-1")


def _pre_bytes(case, preview_records):
    """Content of the pre-existing file (written by the harness itself, never by robotools)."""
    exp = _expected(preview_records)
    pre, fill, extra = case["pre"], case.get("pre_fill", "records"), int(case.get("pre_extra", 7))
    if pre == "absent":
        return None
    if pre == "same":
        return exp
    if pre in ("same_lf", "same_cr"):
        # the same records, written by another tool / normalised by a checkout: other line terminator
        return ("\n" if pre == "same_lf" else "\r").join(preview_records).encode("latin-1")
    if pre == "longer":
        if fill == "junk":
            return exp + bytes([0xAA, 0x0D, 0x0A, 0xFF]) * ((extra + 3) // 4)
        if fill == "lf_lines":
            return exp + b"\nC;stale" * max(1, extra // 8)
        return exp + b"\r\nC;stale line of an earlier file \xb5" * max(1, extra // 30)
    # shorter
    if len(exp) == 0:
        return b""
    if fill == "junk":
        return b"\xaa" * max(0, len(exp) - 1 - min(extra, len(exp) - 1))
    return exp[: len(exp) // 2]


# ---------------------------------------------------------------------------------------------
# judging one written file
# ---------------------------------------------------------------------------------------------
def _record_features(ctx, records):
    for r in records:
        try:
            rec = parse(r)
            t = rec.type if rec.type != "script" else "script:" + rec.f["name"]
        except GrammarError:
            t = "other"
        ctx.feature("record_type", t)
    n = len(records)
    ctx.count("records:0" if n == 0 else "records:1" if n == 1 else "records:many")
    if any(ord(ch) > 127 for r in records for ch in r):
        ctx.count("saved_with_latin1_nonascii")


def _is_write_open(ev):
    event, path, mode, flags = ev
    if event != "open":
        return False
    if isinstance(mode, str) and any(ch in mode for ch in "wax+"):
        return True
    return isinstance(flags, int) and bool(flags & WRITE_FLAGS)


def _judge_file(ctx, case, base, path, records, old, events, tag):
    """All rules on one save (bytes, residue, read-back, audit trace); ``old`` = bytes of the file that existed
    before the save (None: no such file).  str() is judged by the caller."""
    target = str(path)
    ctx.count("saves")
    ctx.count("saves:" + tag)
    _record_features(ctx, records)
    det = lambda **kw: dict({"save": tag, "path": target, "records": records[:200], "n_records": len(records),
                             "pre_existing": case.get("pre"), "fs_events": [list(e) for e in events[:20]]}, **kw)
    try:
        exp = _expected(records)
    except UnicodeEncodeError:
        ctx.count("records_outside_latin1")  # not generated; the statement is silent
        return
    exists = os.path.isfile(target)
    if not ctx.check("file_exists_after_save", exists, det):
        return
    with open(target, "rb") as f:
        data = f.read()
    show = lambda: det(expected_len=len(exp), observed_len=len(data), expected_tail=repr(exp[-80:]),
                       observed_tail=repr(data[-80:]), first_difference=next(
                           (i for i, (a, b) in enumerate(zip(exp, data)) if a != b), min(len(exp), len(data))))
    ctx.check("file_bytes_are_crlf_joined_latin1_records", data == exp, show)
    if records:
        ctx.check("no_trailing_line_break", data[-1:] not in (b"\n", b"\r") or exp[-1:] in (b"\n", b"\r"), show)
        ctx.check("read_back_split_returns_records", data.decode("latin-1").split("\r\n") == records, show)
    else:
        ctx.check("empty_worklist_gives_empty_file", data == b"", show)
    if old is not None:
        # residue = bytes of the earlier file survive: behind the new content (not truncated) or in front of it (appended)
        tail = len(data) > len(exp) and len(old) > len(exp) and data[len(exp):] == old[len(exp): len(data)]
        front = len(old) > 0 and data != exp and data.startswith(old) and data.endswith(exp) and len(data) >= len(old) + len(exp)
        ctx.check("no_residue_of_previous_file", not (tail or front),
                  lambda: dict(show(), previous_len=len(old), residue="behind" if tail else "in front"))
    # audit trace
    opens = [e for e in events if e[1] == target and _is_write_open(e)]
    ctx.count("audit_write_opens", len(opens))
    ctx.count("audit_events", len(events))
    # How the file gets there is not part of the statement (an atomic write through a temporary file and a
    # rename would be legitimate): the audit trace is evidence of what was observed, not a verdict.
    ctx.count("observed:save_opened_target_for_writing" if len(opens) >= 1 else "observed:target_not_opened_for_writing")
    if not all(e[1] == target for e in events):
        ctx.count("observed:save_touched_other_paths")
    if sorted(os.listdir(base)) != [os.path.basename(target)]:
        ctx.count("observed:other_files_in_directory_after_save")


def _judge_str(ctx, wl, records):
    s = str(wl)
    # "shows the same records": one record per line, in order; the statement does not fix the line separator
    ctx.check("str_shows_records", isinstance(s, str) and s in ("\n".join(records), "\r\n".join(records)),
              lambda: {"records": records[:100], "str": s[:4000]})


# ---------------------------------------------------------------------------------------------
# execution
# ---------------------------------------------------------------------------------------------
def run_case(ctx, case):
    base = _scratch()
    att = attach.current()
    _cleanup_dir(base)
    cwd = os.getcwd()
    try:
        if case.get("path_kind") == "relative":
            os.chdir(base)
            ctx.count("path:bare_relative_name")
        try:
            _run(ctx, case, base, att)
        except CannotCreate as e:
            ctx.case(case, True)
            ctx.check("worklist_with_gwl_file_name_can_be_created", False,
                      lambda: {"name": case.get("name"), "path_kind": case.get("path_kind"), "raised": str(e)})
    finally:
        os.chdir(cwd)
        _cleanup_dir(base)
        att.fs_events.clear()


def _arg(case, path: Path):
    if case["path_kind"] == "relative":
        # a bare file name, resolved against the working directory (run_case changes into the scratch directory)
        return os.path.basename(str(path))
    return str(path) if case["path_kind"] == "str" else Path(path)


def _write_pre(case, path, preview):
    pre = _pre_bytes(case, preview)
    if pre is None:
        return False, None
    with open(path, "wb") as f:
        f.write(pre)
    return True, pre


def _events(att):
    ev = list(att.fs_events)
    att.fs_events.clear()
    return ev


def _run(ctx, case, base, att):
    mode = case["mode"]
    path = base / case["name"]
    ctx.feature("mode", mode)
    ctx.feature("cls", case["cls"])
    ctx.count("path:" + case["path_kind"])
    ctx.count("mode:" + mode)

    if mode.startswith("badname"):
        _run_badname(ctx, case, base, path, att)
        return

    if mode in ("save", "save_twice"):
        b = _Bench(case)
        _fill(ctx, b, case["ops"])
        records = list(b.wl)
        had_pre, pre = _write_pre(case, path, records)
        _count_pre(ctx, case, had_pre, pre, records)
        ctx.case(case, len(records) >= 2 or had_pre or mode == "save_twice")
        _judge_str(ctx, b.wl, records)
        att.fs_events.clear()
        exc = None
        try:
            b.wl.save(_arg(case, path))
        except Exception as e:
            exc = e
        ev = _events(att)
        if not ctx.check("save_does_not_raise", exc is None, lambda: {"raised": repr(exc), "path": str(path), "records": records[:50]}):
            return
        _judge_file(ctx, case, base, path, records, pre, ev, "save")
        if mode == "save_twice":
            _fill(ctx, b, case.get("ops2", []))
            records2 = list(b.wl)
            ctx.count("second_save:" + ("same_content" if records2 == records else "longer_content"))
            _judge_str(ctx, b.wl, records2)
            att.fs_events.clear()
            try:
                b.wl.save(_arg(case, path))
            except Exception as e:
                exc = e
            ev = _events(att)
            if ctx.check("save_does_not_raise", exc is None, lambda: {"raised": repr(exc), "path": str(path), "second": True}):
                _judge_file(ctx, case, base, path, records2, _expected(records), ev, "second_save")
        return

    if mode in ("with_twice", "save_inside_block"):
        _run_reuse(ctx, case, base, path, att)
        return

    # ---- with-block modes ------------------------------------------------------------------
    keys = ("ops",)
    preview = _preview(ctx, case, keys)
    had_pre, pre = _write_pre(case, path, preview)
    _count_pre(ctx, case, had_pre, pre, preview)
    b = _Bench(case, filepath=_arg(case, path))
    if mode == "with_preloaded":
        _fill(ctx, b, case.get("ops_pre", []))
        ctx.count("with_entered_holding_records" if len(b.wl) else "with_entered_empty")
    state = {"records": None, "entered_len": None}
    boom = _Boom("left the block on purpose")
    caught = None
    att.fs_events.clear()
    try:
        with b.wl as w:
            state["entered_len"] = len(b.wl)
            state["same_object"] = w is b.wl
            _fill(ctx, b, case["ops"])
            state["records"] = list(b.wl)
            if mode == "with_exc":
                if case.get("exc_kind") == "api":
                    b.wl.comment("refused;text")  # refused by the API: ValueError leaves the block
                raise boom
    except BaseException as e:  # noqa: B902 - observed, judged below
        caught = e
    ev = _events(att)
    records = state["records"]
    if records is None:
        ctx.check("with_block_entered", False, lambda: {"raised": repr(caught)})
        ctx.case(case, had_pre)
        return
    ctx.case(case, len(records) >= 2 or had_pre)
    ctx.check("enter_starts_empty", state["entered_len"] == 0,
              lambda: {"len_at_entry": state["entered_len"], "mode": mode, "ops_pre": case.get("ops_pre")})
    if mode == "with_exc":
        ctx.count("left_by_exception:" + case.get("exc_kind", "custom"))
        if case.get("exc_kind") == "api":
            ok = isinstance(caught, ValueError) and not isinstance(caught, _Boom)
        else:
            ok = caught is boom
        ctx.check("exception_propagates_from_with_block", ok, lambda: {"raised_inside": case.get("exc_kind"), "came_out": repr(caught)})
        exists = ctx.check("file_written_when_block_left_by_exception", os.path.isfile(path),
                           lambda: {"path": str(path), "came_out": repr(caught), "records": records[:50]})
        if exists:
            ctx.count("autosave_after_exception")
            _judge_file(ctx, case, base, path, records, pre, ev, "exit_after_exception")
    else:
        if not ctx.check("with_block_does_not_raise", caught is None, lambda: {"raised": repr(caught), "records": records[:50]}):
            return
        _judge_file(ctx, case, base, path, records, pre, ev, "exit")
    _judge_str(ctx, b.wl, records)
    if mode == "with_then_save":
        # explicit save of the same worklist next to the auto-saved file: same bytes
        other = base / ("explicit-" + case["name"])
        att.fs_events.clear()
        exc = None
        try:
            b.wl.save(_arg(case, other))
        except Exception as e:
            exc = e
        ev = [e for e in _events(att)]
        if ctx.check("save_does_not_raise", exc is None, lambda: {"raised": repr(exc), "path": str(other)}):
            with open(path, "rb") as f:
                auto = f.read()
            os.remove(path)
            _judge_file(ctx, case, base, other, records, None, ev, "save_after_exit")
            if os.path.isfile(other):
                with open(other, "rb") as f:
                    ctx.check("auto_save_equals_explicit_save", f.read() == auto, lambda: {"records": records[:50]})


def _run_reuse(ctx, case, base, path, att):
    """The same worklist object (with a file path) used twice / saved explicitly inside its block."""
    mode = case["mode"]
    preview = _preview(ctx, case)
    had_pre, pre = _write_pre(case, path, preview)
    _count_pre(ctx, case, had_pre, pre, preview)
    b = _Bench(case, filepath=_arg(case, path))
    ctx.case(case, True)
    if mode == "with_twice":
        att.fs_events.clear()
        with b.wl:
            _fill(ctx, b, case["ops"])
            rec1 = list(b.wl)
        ev = _events(att)
        _judge_file(ctx, case, base, path, rec1, pre, ev, "first_block")
        prev = _expected(rec1)
        if case["between"] == "foreign_longer":
            prev = prev + b"\r\nC;foreign content written by somebody else" * 3
            with open(path, "wb") as f:
                f.write(prev)
        elif case["between"] == "deleted":
            if os.path.exists(path):
                os.remove(path)
            prev = None
        att.fs_events.clear()
        with b.wl:
            n_at_entry = len(b.wl)
            if case["second"] == "identical":
                _fill(ctx, b, case["ops"])
            else:
                k = len(rec1) if case["second"] == "same_count" else len(rec1) + 2
                for i in range(k):
                    b.wl.comment(f"second run {i}")
            rec2 = list(b.wl)
        ev = _events(att)
        ctx.check("enter_starts_empty", n_at_entry == 0, lambda: {"len_at_entry": n_at_entry, "mode": mode})
        ctx.count("second_block:" + case["second"] + ":" + case["between"])
        _judge_file(ctx, case, base, path, rec2, prev, ev, "second_block_same_object")
        _judge_str(ctx, b.wl, rec2)
        return
    # save_inside_block
    att.fs_events.clear()
    with b.wl:
        _fill(ctx, b, case["ops"])
        b.wl.save(_arg(case, path))
        if case["then"] == "replace_last" and len(b.wl):
            b.wl[-1] = "C;replaced after the explicit save"
        elif case["then"] == "append" or (case["then"] == "replace_last" and not len(b.wl)):
            b.wl.comment("added after the explicit save")
        rec = list(b.wl)
    ev = _events(att)
    ctx.count("explicit_save_inside_block:" + case["then"])
    _judge_file(ctx, case, base, path, rec, pre, ev, "exit_after_explicit_save")


def _count_pre(ctx, case, had_pre, pre, records):
    if not had_pre:
        ctx.count("pre:absent")
        return
    exp = _expected(records)
    if len(pre) > len(exp):
        ctx.count("pre:longer")
    elif len(pre) < len(exp):
        ctx.count("pre:shorter")
    elif pre == exp:
        ctx.count("pre:same")
    else:
        ctx.count("pre:same_length_other_content")


def _run_badname(ctx, case, base, path, att):
    mode = case["mode"]
    ctx.case(case, True)
    ctx.count("must_refuse:" + mode)
    ctx.feature("bad_name", case["name"])
    exc = None
    att.fs_events.clear()
    if mode == "badname_save":
        b = _Bench(case)
        _fill(ctx, b, case["ops"])
        records = list(b.wl)
        att.fs_events.clear()
        try:
            b.wl.save(_arg(case, path))
        except Exception as e:
            exc = e
    else:
        records = None
        try:
            b = _Bench(case, filepath=_arg(case, path))
            with b.wl:
                _fill(ctx, b, case["ops"])
                records = list(b.wl)
        except Exception as e:
            exc = e
    ev = _events(att)
    det = lambda: {"name": case["name"], "mode": mode, "raised": repr(exc), "directory": sorted(os.listdir(base)),
                   "fs_events": [list(e) for e in ev[:20]]}
    ctx.check("non_gwl_name_refused", exc is not None, det)
    ctx.check("non_gwl_name_creates_no_file", os.listdir(base) == [] and not any(_is_write_open(e) for e in ev), det)


# ---------------------------------------------------------------------------------------------
# enumerated cross product
# ---------------------------------------------------------------------------------------------
_FIXED_OPS = {
    0: [],
    1: [{"op": "flush"}],
    "1c": [{"op": "comment", "text": "50 µL ÿ ä"}],
    "many": [
        {"op": "set_diti", "index": 2},
        {"op": "comment", "text": "Größe µ ÿ\nzweite Zeile ä"},
        {"op": "aspirate_well", "label": "µPlate", "position": 1, "volume": 10.5, "kw": {"liquid_class": "Wässrig µ"}},
        {"op": "dispense_well", "label": "Plate", "position": 96, "volume": 10.5, "kw": {"tip": [1, 2]}},
        {"op": "wash", "scheme": 2},
        {"op": "reagent_distribution", "src": "T", "s0": 1, "s1": 8, "dst": "P", "d0": 1, "d1": 20, "volume": 50,
         "multi_disp": 6, "diti_reuse": 2, "exclude": [3, 7], "liquid_class": "Water", "direction": "left_to_right"},
        {"op": "flush"},
        {"op": "commit"},
        {"op": "comment", "text": "ende"},
    ],
}


def _grid_cases():
    out = []
    for cls in CLASSES:
        for mode in MODES:
            bad = mode.startswith("badname")
            for pre in (("absent",) if bad else PRES):
                for pk in ("str", "path"):
                    for L in (0, 1, "1c", "many"):
                        if pre == "shorter" and L == 0:
                            continue
                        ops = list(_FIXED_OPS[L])
                        if L == "many" and cls == "evo":
                            ops = ops + [
                                {"op": "evo_wash", "tips": [1, 2, 3], "waste": [52, 2], "cleaner": [52, 1]},
                                {"op": "evo_aspirate", "wells": ["A01", "B01", "H01"], "pos": [38, 2], "tips": [1, 2, 8],
                                 "vol": [10, 20.5, 30], "lc": "Water", "label": None},
                                {"op": "decontaminate"},
                            ]
                        if L == "many" and cls != "base":
                            ops = ops + [{"op": "transfer", "sw": ["A01", "B01"], "dw": ["A02", "B02"], "vol": [1200, 10],
                                          "label": "Übertrag", "wash": 1}]
                        names = BAD_NAMES if bad else GOOD_NAMES[:1]
                        for name in names:
                            case = {"cls": cls, "diti_mode": False, "mode": mode, "ops": ops, "pre": pre,
                                    "pre_fill": "records", "pre_extra": 60, "path_kind": pk, "name": name}
                            if mode == "save_twice":
                                case["ops2"] = [{"op": "comment", "text": "später ÿ"}, {"op": "flush"}]
                            if mode == "with_preloaded":
                                case["ops_pre"] = [{"op": "comment", "text": "vorher"}, {"op": "wash", "scheme": 1}] * 6
                            if mode == "with_exc":
                                case["exc_kind"] = "custom" if pk == "str" else "api"
                            out.append(case)
    return out


def extra(ctx):
    cases = _grid_cases()
    done = 0
    for i, case in enumerate(cases):
        if i % ctx.nshards != ctx.shard:
            continue
        ctx.current_case = case
        run_case(ctx, case)
        done += 1
    ctx.count("grid_cases", done)
    ctx.current_case = None
    # remove the per-process scratch directory
    p = _dir["path"]
    if p is not None:
        att = attach.current()
        att.fs_prefix = None
        _remove_scratch(p)
        _dir["path"] = None


# ---------------------------------------------------------------------------------------------
# gates
# ---------------------------------------------------------------------------------------------
def gates(stats, tier):
    c = stats["counters"]
    f = stats["features"]
    r = []
    want = len(_grid_cases())
    if c.get("grid_cases", 0) != want:
        r.append(f"enumerated cross product incomplete: {c.get('grid_cases', 0)} of {want} cases")
    for rule in ("file_bytes_are_crlf_joined_latin1_records", "no_trailing_line_break", "read_back_split_returns_records",
                 "empty_worklist_gives_empty_file", "no_residue_of_previous_file", "str_shows_records",
                 "non_gwl_name_refused", "non_gwl_name_creates_no_file", "enter_starts_empty",
                 "exception_propagates_from_with_block", "file_written_when_block_left_by_exception",
                 "auto_save_equals_explicit_save"):
        if not c.get("rule:" + rule):
            r.append(f"deciding rule never evaluated: {rule}")
    for k in ("pre:longer", "pre:shorter", "pre:same", "pre:absent", "path:str", "path:path", "autosave_after_exception",
              "left_by_exception:custom", "left_by_exception:api", "with_entered_holding_records", "records:0",
              "records:1", "records:many", "saved_with_latin1_nonascii", "saves:save", "saves:second_save",
              "saves:exit", "saves:exit_after_exception", "saves:save_after_exit", "must_refuse:badname_save",
              "must_refuse:badname_with"):
        if not c.get(k):
            r.append(f"never observed: {k}")
    saves = c.get("saves", 0)
    if saves == 0 or c.get("audit_events", 0) == 0:
        r.append(f"audit hook saw {c.get('audit_events', 0)} file-system events for {saves} saves")
    types = set(f.get("record_type", ()))
    for t in ("C", "W", "WD", "F", "B", "S", "A", "D", "R", "script:Aspirate", "script:Dispense", "script:Wash"):
        if t not in types:
            r.append(f"record type never saved: {t}")
    for cl in CLASSES:
        if cl not in set(f.get("cls", ())):
            r.append(f"worklist class never used: {cl}")
    need = 2500 if tier == "quick" else 90000
    if saves < need:
        r.append(f"only {saves} saves (< {need})")
    if stats["distinct_nontrivial"] < (50 if tier == "quick" else 1000):
        r.append("too few distinct non-trivial cases")
    return r
