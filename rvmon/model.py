"""Exact (fractions.Fraction) shadow model of wells: volume + absolute component amounts.

The model is driven either by the generator (feasibility / steering questions) or by the stream
of elementary labware events observed at the hooks (attach.py).  It never looks at robotools'
state; everything comes from the worktable description and the events' arguments.
"""
from __future__ import annotations

from fractions import Fraction

from .attach import fr, real_index


class SWell:
    __slots__ = ("vol", "amt", "unknown")

    def __init__(self, vol, name):
        self.vol = vol
        self.amt = {name: vol} if (vol > 0 and name is not None) else {}
        self.unknown = bool(vol > 0 and name is None)

    def fractions(self):
        """Exact composition {component: fraction} (None if the well holds unknown liquid)."""
        if self.unknown:
            return None
        if self.vol <= 0:
            return {}
        return {k: a / self.vol for k, a in self.amt.items() if a != 0}


class SLabware:
    def __init__(self, desc):
        self.desc = desc
        self.name = desc["name"]
        self.trough = desc["kind"] == "trough"
        self.rows = 1 if self.trough else desc["rows"]
        self.cols = desc["columns"]
        self.min = fr(desc["min_volume"])
        self.max = fr(desc["max_volume"])
        names = desc.get("names") or {}
        self.wells = {}
        for r in range(self.rows):
            for c in range(self.cols):
                self.wells[(r, c)] = SWell(fr(desc["initial"][r][c]), names.get(f"{r},{c}"))

    def idx(self, well):
        return real_index(self.desc, well)

    def remove(self, idx, vol):
        """Take ``vol`` out of a well; returns the absolute amounts taken (None if unknown)."""
        w = self.wells[idx]
        vol = fr(vol)
        if w.unknown:
            taken = None
        elif w.vol > 0:
            f = vol / w.vol
            taken = {k: a * f for k, a in w.amt.items()}
            for k, a in taken.items():
                w.amt[k] -= a
        else:
            taken = {} if vol == 0 else None
        w.vol -= vol
        if w.vol == 0 and not w.unknown:
            w.amt = {k: a for k, a in w.amt.items() if a != 0}
        return taken

    def add(self, idx, vol, amounts):
        """Put ``vol`` into a well carrying the absolute ``amounts`` (None = unknown liquid)."""
        w = self.wells[idx]
        vol = fr(vol)
        if amounts is None:
            if vol > 0:
                w.unknown = True
        else:
            for k, a in amounts.items():
                w.amt[k] = w.amt.get(k, Fraction(0)) + a
        w.vol += vol

    def totals(self, acc=None):
        acc = {} if acc is None else acc
        for w in self.wells.values():
            for k, a in w.amt.items():
                acc[k] = acc.get(k, Fraction(0)) + a
        return acc


class Shadow:
    def __init__(self, worktable):
        self.lw = {d["name"]: SLabware(d) for d in worktable}

    def totals(self):
        acc = {}
        for l in self.lw.values():
            l.totals(acc)
        return acc
